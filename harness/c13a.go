package main

// C13 (group A): the importers ch.swisscard2, ch.viac, ch.cumulus, ch.postfinance, ch.swisscard,
// ch.supercard.
//
// op C13.<importer>; input = "<flags> | <hex of the statement file> | <items>"
//   flags: imp=<name> kind=wf|mal:<what> acct=<x+hex|-> from=<x+hex|-> nl=0|1 (free text with newlines)
//          q=0|1 (free text may contain double quotes) pay=<n> (cumulus payment rows) facts=<facts|->
//   items: what Go's reader delivers to the importer (the model has no CSV/JSON reader): the
//          records of encoding/csv read with exactly the importer's reader configuration
//          (c13aReadItems below; ";"-separated, "r<hex>,<hex>,..." per record, "!" for a reader
//          error, "-" for none), for viac the decoded dailyWealth entries "<hexdate>,<hexvalue>".
//   facts: the generator's own account of the statement's booking rows, written down from the
//          structured rows BEFORE rendering them in the bank's format (not read back from the
//          file, not computed by the model): "yyyy-mm-dd:<signed effect on the import account>:<cur>".
// observed = "OK <stdout>" | "ERR" | "ERR+OUT <stdout>" | "PANIC ..." followed by
//   " | print=ok|fail:<why>|na | rows=ok|fail:<why>|na":
//   print: the binary's stdout, with `open` directives for the accounts it uses prepended, is fed
//          to `knut print`; exit 0 and byte-identical output are required (accepted and
//          re-printed unchanged).
//   rows:  the printed journal is parsed with three regular expressions (header, posting,
//          price) and compared with the facts: same number of transactions, same multiset of
//          (date, effect on the import account, currency); without embedded newlines in free
//          text additionally the exact line structure header / one posting / blank.

import (
	"bufio"
	"bytes"
	"encoding/csv"
	"encoding/hex"
	"encoding/json"
	"fmt"
	"io"
	"math/big"
	"regexp"
	"sort"
	"strings"
	"time"

	"github.com/dimchansky/utfbom"
	"golang.org/x/text/encoding/charmap"
)

var c13aImporters = []string{"swisscard2", "viac", "cumulus", "postfinance", "swisscard", "supercard"}

func init() {
	for _, imp := range c13aImporters {
		imp := imp
		observers["C13."+imp] = func(in string) string { return c13aObserve(imp, in) }
	}
	gens["C13a"] = genC13a
}

// ---------------------------------------------------------------- reader items

type c13aItem struct {
	rec []string
	err bool
}

// c13aReadItems reads the statement with the reader configuration of the importer.
func c13aReadItems(imp string, data []byte) []c13aItem {
	var items []c13aItem
	var rd *csv.Reader
	src := bufio.NewReader(bytes.NewReader(data)) // flags.OpenFile: bufio.NewReader(os.Open)
	loop := func() {
		for {
			rec, err := rd.Read()
			if err == io.EOF {
				return
			}
			if err != nil {
				items = append(items, c13aItem{err: true})
				return
			}
			items = append(items, c13aItem{rec: rec})
		}
	}
	switch imp {
	case "swisscard2":
		// swisscard2.go:78 csv.NewReader(f); :98-99 TrimLeadingSpace = true, FieldsPerRecord = 12
		rd = csv.NewReader(src)
		rd.TrimLeadingSpace = true
		rd.FieldsPerRecord = 12
		loop()
	case "cumulus":
		// cumulus.go:108-110 csv.NewReader(r); FieldsPerRecord = -1; LazyQuotes = true
		rd = csv.NewReader(src)
		rd.FieldsPerRecord = -1
		rd.LazyQuotes = true
		loop()
	case "postfinance":
		// postfinance.go:83 csv.NewReader(utfbom.SkipOnly(reader)); :112-115 LazyQuotes,
		// TrimLeadingSpace, Comma = ';', FieldsPerRecord = -1
		rd = csv.NewReader(utfbom.SkipOnly(src))
		rd.LazyQuotes = true
		rd.TrimLeadingSpace = true
		rd.Comma = ';'
		rd.FieldsPerRecord = -1
		loop()
	case "swisscard":
		// swisscard.go:79 csv.NewReader(f); :101 TrimLeadingSpace = true (FieldsPerRecord stays 0:
		// every record must have the field count of the first)
		rd = csv.NewReader(src)
		rd.TrimLeadingSpace = true
		loop()
	case "supercard":
		// supercard.go:79 csv.NewReader(charmap.ISO8859_1.NewDecoder().Reader(f)); :102-104
		// TrimLeadingSpace, Comma = ';', FieldsPerRecord = 13; :127 FieldsPerRecord = 2 for the
		// first line (restored to 13 by the defer), :139 header with 13, :111 then -1
		rd = csv.NewReader(charmap.ISO8859_1.NewDecoder().Reader(src))
		rd.TrimLeadingSpace = true
		rd.Comma = ';'
		for i, fpr := range []int{2, 13} {
			_ = i
			rd.FieldsPerRecord = fpr
			rec, err := rd.Read()
			if err == io.EOF {
				return items
			}
			if err != nil {
				return append(items, c13aItem{err: true})
			}
			items = append(items, c13aItem{rec: rec})
		}
		rd.FieldsPerRecord = -1
		loop()
	}
	return items
}

func c13aEncItems(items []c13aItem) string {
	if len(items) == 0 {
		return "-"
	}
	parts := make([]string, len(items))
	for i, it := range items {
		if it.err {
			parts[i] = "!"
			continue
		}
		fs := make([]string, len(it.rec))
		for j, f := range it.rec {
			fs[j] = hex.EncodeToString([]byte(f))
		}
		parts[i] = "r" + strings.Join(fs, ",")
	}
	return strings.Join(parts, ";")
}

// viac.go:110-117 the response structure; :78 json.Unmarshal
type c13aViacResp struct {
	DailyValues []struct {
		Date  string      `json:"date"`
		Value json.Number `json:"value"`
	} `json:"dailyWealth"`
}

func c13aViacItems(data []byte) string {
	var resp c13aViacResp
	if err := json.Unmarshal(data, &resp); err != nil {
		return "!"
	}
	if len(resp.DailyValues) == 0 {
		return "-"
	}
	parts := make([]string, len(resp.DailyValues))
	for i, dv := range resp.DailyValues {
		parts[i] = hex.EncodeToString([]byte(dv.Date)) + "," + hex.EncodeToString([]byte(dv.Value.String()))
	}
	return strings.Join(parts, ";")
}

// ---------------------------------------------------------------- input line

type c13aCase struct {
	imp, kind, acct, from string
	hasFrom, hasAcct      bool
	nl, quotes            bool
	pay                   int
	facts                 []c13aFact
	file                  []byte
}

type c13aFact struct {
	date, amount, cur string
	pay               bool // a payment row of a Cumulus statement ("P" suffix in the encoding)
}

func c13aHexOrDash(s string, present bool) string {
	if !present {
		return "-"
	}
	return "x" + hex.EncodeToString([]byte(s))
}

func c13aUnhexOrDash(s string) (string, bool) {
	if s == "-" || !strings.HasPrefix(s, "x") {
		return "", false
	}
	b, _ := hex.DecodeString(s[1:])
	return string(b), true
}

func (c c13aCase) enc() string {
	fs := "-"
	if len(c.facts) > 0 {
		p := make([]string, len(c.facts))
		for i, f := range c.facts {
			p[i] = f.date + ":" + f.amount + ":" + f.cur
			if f.pay {
				p[i] += ":P"
			}
		}
		fs = strings.Join(p, ",")
	}
	var items string
	if c.imp == "viac" {
		items = c13aViacItems(c.file)
	} else {
		items = c13aEncItems(c13aReadItems(c.imp, c.file))
	}
	hx := hex.EncodeToString(c.file)
	if hx == "" {
		hx = "-"
	}
	return fmt.Sprintf("imp=%s kind=%s acct=%s from=%s nl=%s q=%s pay=%d facts=%s | %s | %s",
		c.imp, c.kind, c13aHexOrDash(c.acct, c.hasAcct), c13aHexOrDash(c.from, c.hasFrom), b2s(c.nl), b2s(c.quotes), c.pay, fs, hx, items)
}

func c13aDecode(in string) c13aCase {
	parts := strings.SplitN(in, " | ", 3)
	var c c13aCase
	for _, kv := range strings.Fields(parts[0]) {
		i := strings.Index(kv, "=")
		if i < 0 {
			continue
		}
		k, v := kv[:i], kv[i+1:]
		switch k {
		case "imp":
			c.imp = v
		case "kind":
			c.kind = v
		case "acct":
			c.acct, c.hasAcct = c13aUnhexOrDash(v)
		case "from":
			c.from, c.hasFrom = c13aUnhexOrDash(v)
		case "nl":
			c.nl = v == "1"
		case "q":
			c.quotes = v == "1"
		case "pay":
			fmt.Sscanf(v, "%d", &c.pay)
		case "facts":
			if v != "-" {
				for _, f := range strings.Split(v, ",") {
					x := strings.Split(f, ":")
					if len(x) >= 3 {
						c.facts = append(c.facts, c13aFact{x[0], x[1], x[2], len(x) > 3 && x[3] == "P"})
					}
				}
			}
		}
	}
	if len(parts) > 1 && parts[1] != "-" {
		c.file, _ = hex.DecodeString(parts[1])
	}
	return c
}

// ---------------------------------------------------------------- observer

var c13aUse = map[string]string{"swisscard2": "ch.swisscard2", "viac": "ch.viac", "cumulus": "ch.cumulus",
	"postfinance": "ch.postfinance", "swisscard": "ch.swisscard", "supercard": "ch.supercard"}

func c13aObserve(imp string, in string) string {
	c := c13aDecode(in)
	var out string
	withTempDir(func(dir string) {
		f := writeFileBytes(dir, "statement.dat", c.file)
		args := []string{"import", c13aUse[imp]}
		if c.hasAcct {
			if imp == "viac" {
				args = append(args, "--commodity", c.acct)
			} else {
				args = append(args, "--account", c.acct)
			}
		}
		if c.hasFrom {
			args = append(args, "--from", c.from)
		}
		args = append(args, f)
		r := runKnut(knutBin(), dir, nil, 20*time.Second, args...)
		out = renderRun(r)
		pr, rows := "na", "na"
		if r.class() == "OK" {
			stdout := r.Stdout
			stray := ""
			// F13: so that the rest of a postfinance import is still judged, a first line of the
			// form "<n> [...]" is reported as such and the remainder goes through (a) and (b)
			if i := strings.Index(stdout, "\n"); imp == "postfinance" && i >= 0 && c13aReDebug.MatchString(stdout[:i]) {
				stray = "fail:stray-debug-line rest="
				stdout = stdout[i+1:]
			}
			pr = stray + c13aPrintCheck(dir, imp, c, stdout)
			if strings.HasPrefix(c.kind, "wf") {
				rows = c13aRowsCheck(imp, c, stdout)
			}
		}
		out += " | print=" + pr + " | rows=" + rows
	})
	return out
}

func writeFileBytes(dir, name string, content []byte) string {
	return writeFile(dir, name, string(content))
}

// (a) the output, with the accounts it uses opened, is accepted by `knut print` and re-printed
// unchanged
func c13aPrintCheck(dir, imp string, c c13aCase, stdout string) string {
	header := ""
	if imp != "viac" && strings.TrimSpace(stdout) != "" {
		header = "0001-01-01 open " + c.acct + "\n"
		if c.acct != "Expenses:TBD" {
			header += "0001-01-01 open Expenses:TBD\n"
		}
		header += "\n"
	}
	text := header + stdout
	f := writeFile(dir, "imported.knut", text)
	r := runKnut(knutBin(), dir, nil, 20*time.Second, "print", f)
	if r.class() != "OK" {
		msg := strings.TrimSpace(r.Stderr)
		if i := strings.Index(msg, "\n"); i >= 0 {
			msg = msg[:i]
		}
		msg = strings.ReplaceAll(msg, f, "FILE")
		if len(msg) > 100 {
			msg = msg[:100]
		}
		if c13aQuoteProblem(c, stdout) {
			return "fail:rejected quote-in-description"
		}
		return "fail:rejected(" + r.class() + ") " + esc(strings.ReplaceAll(msg, " | ", " / "))
	}
	if r.Stdout != text {
		return "fail:reprinted-differently"
	}
	return "ok"
}

var (
	c13aReHeader  = regexp.MustCompile(`^(\d{4}-\d{2}-\d{2}) "`)
	c13aReHeader1 = regexp.MustCompile(`^(\d{4}-\d{2}-\d{2}) ".*"$`)
	c13aReDebug   = regexp.MustCompile(`^\d+ \[.*\]$`)
	c13aRePosting = regexp.MustCompile(`^(\S+) +(\S+) +(-?\d+(?:\.\d+)?) (\S+)$`)
	c13aRePrice   = regexp.MustCompile(`^(\d{4}-\d{2}-\d{2}) price (\S+) (-?\d+(?:\.\d+)?) (\S+)$`)
)

// more double quotes than the two per transaction that delimit the description
func c13aQuoteProblem(c c13aCase, stdout string) bool {
	n := 0
	for _, l := range strings.Split(stdout, "\n") {
		if m := c13aRePosting.FindStringSubmatch(l); m != nil && (m[1] == c.acct || m[2] == c.acct) {
			n++
		}
	}
	return n > 0 && strings.Count(stdout, "\"") > 2*n
}

func c13aRat(s string) *big.Rat {
	r, ok := new(big.Rat).SetString(s)
	if !ok {
		return nil
	}
	return r
}

func c13aFactKey(date string, amount *big.Rat, cur string) string {
	return date + " " + amount.RatString() + " " + cur
}

// (b) transactions of the printed journal against the facts
func c13aRowsCheck(imp string, c c13aCase, stdout string) string {
	var got []string
	lines := strings.Split(stdout, "\n")
	if imp == "viac" {
		for i, l := range lines {
			if l == "" {
				continue
			}
			m := c13aRePrice.FindStringSubmatch(l)
			if m == nil {
				return fmt.Sprintf("fail:line %d is not a price directive", i+1)
			}
			if m[2] != c.acct {
				return fmt.Sprintf("fail:line %d prices another commodity", i+1)
			}
			got = append(got, c13aFactKey(m[1], c13aRat(m[3]), m[4]))
		}
	} else {
		last := ""
		state := 0 // 0: expecting header or blank; 1: expecting posting; 2: expecting blank
		for i, l := range lines {
			if m := c13aRePosting.FindStringSubmatch(l); m != nil && (m[1] == c.acct || m[1] == "Expenses:TBD") &&
				(m[2] == c.acct || m[2] == "Expenses:TBD") && m[1] != m[2] {
				if last == "" {
					return fmt.Sprintf("fail:line %d posting without a transaction header", i+1)
				}
				q := c13aRat(m[3])
				if m[1] == c.acct {
					q.Neg(q)
				}
				got = append(got, c13aFactKey(last, q, m[4]))
				if !c.nl && state != 1 {
					return fmt.Sprintf("fail:line %d second posting in one transaction", i+1)
				}
				state = 2
				continue
			}
			if m := c13aReHeader.FindStringSubmatch(l); m != nil {
				last = m[1]
				if !c.nl {
					if state == 1 {
						return fmt.Sprintf("fail:line %d transaction without posting", i+1)
					}
					if !c13aReHeader1.MatchString(l) {
						return fmt.Sprintf("fail:line %d malformed header", i+1)
					}
				}
				state = 1
				continue
			}
			if l == "" {
				if !c.nl && state == 1 {
					return fmt.Sprintf("fail:line %d transaction without posting", i+1)
				}
				if state == 2 {
					state = 0
				}
				continue
			}
			if !c.nl {
				return fmt.Sprintf("fail:line %d is neither a transaction header nor a posting: %s", i+1, esc(c13aClip(l, 40)))
			}
		}
	}
	sort.Strings(got)
	cmp := func(withPayments bool) string {
		var want []string
		for _, f := range c.facts {
			if withPayments || !f.pay {
				want = append(want, c13aFactKey(f.date, c13aRat(f.amount), f.cur))
			}
		}
		if len(got) != len(want) {
			return fmt.Sprintf("fail:count %d entries for %d rows", len(got), len(want))
		}
		sort.Strings(want)
		for i := range got {
			if got[i] != want[i] {
				return "fail:entry [" + got[i] + "] where the statement has [" + want[i] + "]"
			}
		}
		return "ok"
	}
	res := cmp(true)
	if res != "ok" && c.pay > 0 && cmp(false) == "ok" {
		return fmt.Sprintf("fail:payment rows dropped (%d), the other %d rows ok", c.pay, len(got))
	}
	return res
}

func c13aClip(s string, n int) string {
	if len(s) > n {
		return s[:n]
	}
	return s
}

// ---------------------------------------------------------------- generators: shared pieces

type c13aAmount struct {
	neg       bool
	ip, fp    string // integer digits (no leading zeros unless "0"), fraction digits (may be "")
	thousands bool   // render with ' separators
	raw       string // forms decimal.NewFromString also accepts ("+5", ".5", "5.", "1e2", "007"); then
	rawValue  string // ... the plain decimal it denotes
}

var c13aExoticForms = [][2]string{{"+5", "5"}, {".5", "0.5"}, {"5.", "5"}, {"1e2", "100"}, {"1E-2", "0.01"},
	{"12.5e1", "125"}, {"007", "7"}, {"0.0", "0"}, {"+.25", "0.25"}, {"3e0", "3"}, {"1.50e+1", "15"}}

func c13aExotic(r *rng) c13aAmount {
	f := pick(r, c13aExoticForms)
	return c13aAmount{raw: f[0], rawValue: f[1], ip: f[1]}
}

// as written in formats without thousands separators
func (a c13aAmount) written() string {
	if a.raw != "" {
		return a.raw
	}
	return a.value(false)
}

func c13aGenAmount(r *rng, allowThousands bool) c13aAmount {
	var a c13aAmount
	switch r.intn(10) {
	case 0:
		a.ip = "0"
	case 1, 2:
		a.ip = fmt.Sprint(r.rangeInt(1000, 99999))
	case 3:
		a.ip = fmt.Sprint(r.rangeInt(1000000, 123456789))
	default:
		a.ip = fmt.Sprint(r.rangeInt(0, 999))
	}
	switch r.intn(8) {
	case 0:
		a.fp = ""
	case 1:
		a.fp = fmt.Sprint(r.intn(10))
	case 2:
		a.fp = "00"
	case 3:
		a.fp = fmt.Sprintf("%02d0", r.intn(100))
	default:
		a.fp = fmt.Sprintf("%02d", r.intn(100))
	}
	if a.ip == "0" && strings.Trim(a.fp, "0") == "" && r.chance(70) {
		a.fp = "05"
	}
	a.thousands = allowThousands && len(a.ip) > 3 && r.chance(75)
	return a
}

// unsigned rendering as the bank writes it
func (a c13aAmount) text() string {
	if a.raw != "" {
		return a.raw
	}
	ip := a.ip
	if a.thousands {
		var b []byte
		for i := 0; i < len(ip); i++ {
			if i > 0 && (len(ip)-i)%3 == 0 {
				b = append(b, '\'')
			}
			b = append(b, ip[i])
		}
		ip = string(b)
	}
	if a.fp == "" {
		return ip
	}
	return ip + "." + a.fp
}

// plain signed decimal for the facts
func (a c13aAmount) value(negate bool) string {
	s := a.ip
	if a.fp != "" {
		s += "." + a.fp
	}
	if a.rawValue != "" {
		s = a.rawValue
	}
	if negate {
		return "-" + s
	}
	return s
}

type c13aDates struct {
	r   *rng
	cur time.Time
}

func c13aNewDates(r *rng) *c13aDates {
	starts := []time.Time{
		time.Date(2019, 12, 20, 0, 0, 0, 0, time.UTC), time.Date(2020, 2, 20, 0, 0, 0, 0, time.UTC),
		time.Date(2023, 12, 28, 0, 0, 0, 0, time.UTC), time.Date(1999, 12, 25, 0, 0, 0, 0, time.UTC),
		time.Date(2021, 6, 1, 0, 0, 0, 0, time.UTC), time.Date(2024, 2, 25, 0, 0, 0, 0, time.UTC),
		time.Date(2100, 2, 26, 0, 0, 0, 0, time.UTC), time.Date(1970, 1, 1, 0, 0, 0, 0, time.UTC),
	}
	return &c13aDates{r: r, cur: pick(r, starts).AddDate(0, 0, r.intn(10))}
}

// statements list bookings in either direction; steps of 0-6 days cross month and year ends
func (d *c13aDates) next() time.Time {
	t := d.cur
	d.cur = d.cur.AddDate(0, 0, d.r.intn(7))
	return t
}

var c13aTexts = []string{
	"Migros Zürich", "COOP-1234 BERN", "SBB CFF FFS", "Café \"Chez Léon\"", "say \"hi\"", "\"", "a;b;c", "x, y, z",
	"Überweisung an Jörg Müller", "日本料理 さくら", "emoji 🍕 pizza", "  leading", "trailing  ", " both ",
	"back\\slash", "tab\there", "semi; colon", "O'Neill's Pub", "100% Bio & Co.", "A/B-Test #42", "",
	"line one\nline two", "rue de l'Église 5\n1200 Genève", "nbsp inside", " nbsp around ",
	"a very long merchant description that keeps going and going and going and going and going and going and going and going and going and going to the end",
	"ÄÖÜäöüß", "price 12.50 CHF", "2020-01-01 open Assets:Fake", "x  y   z", "=\"formula\"", "Ελληνικά",
}

func c13aText(r *rng, newlineOK, quotesOK bool) string {
	for {
		s := pick(r, c13aTexts)
		if strings.Contains(s, "\"") && !quotesOK {
			continue
		}
		if r.chance(60) {
			s = pick(r, []string{"Migros", "Coop City", "Denner AG", "Kiosk", "Amazon.de", "Apotheke Dr. Noyer", "TWINT *Sent to A.B."}) +
				pick(r, []string{"", " " + fmt.Sprint(r.intn(10000)), " Zürich", " Genève", " CHE"})
		}
		if strings.Contains(s, "\n") && !newlineOK {
			continue
		}
		return s
	}
}

// text of a cumulus FX comment row (free text like any other: it may carry quotes; seeded change
// C13-cumulus-fx-comment-quote was missed while it could not)
func c13aComment(r *rng, quotesOK bool) string {
	if quotesOK && r.chance(60) {
		return pick(r, []string{"EUR 215.00 Kurs \"Devisen\" 1.0858", "\"", "Kurs \"1.1\"", "say \"hi\" 2x"})
	}
	return pick(r, []string{"EUR 12.50, Kurs 1.0834", "USD 9.99 Kurs 1.1", "Fremdwährung; Zuschlag 1.5%", "Ünïcode 漢"})
}

// damaged statement "quote": a free-text field with a double quote is written without quoting, or a quoted field is
// followed by text.  A reader without LazyQuotes stops there (csv.ErrBareQuote, csv.ErrQuote) and the import fails; a
// reader with LazyQuotes delivers a record (for the strict readers this is the only kind of statement on which the
// setting can be seen: whatever the strict reader accepts the lazy reader reads in the same way)
const c13aRawMark = "\x01raw:"

func c13aBareQuote(r *rng) string {
	return c13aRawMark + pick(r, []string{"Café \"Chez Léon\"", "say \"hi\"", "5\" nails", "\"Migros\" Zürich", "\"a\"b", "x\""})
}

// csv field: quoted when needed (or at random), quotes doubled
func c13aCsvField(r *rng, s string, comma byte, always bool) string {
	if raw, ok := strings.CutPrefix(s, c13aRawMark); ok {
		return raw // damaged statement: written as it is (mal "quote")
	}
	need := always || strings.ContainsAny(s, "\"\n\r") || strings.IndexByte(s, comma) >= 0 ||
		strings.HasPrefix(s, " ") || strings.HasPrefix(s, "\t") || strings.HasPrefix(s, " ") || s == ""
	if s == "" && !always {
		need = r.chance(30)
	}
	if !need && r.chance(15) {
		need = true
	}
	if need {
		return "\"" + strings.ReplaceAll(s, "\"", "\"\"") + "\""
	}
	return s
}

// What the reader settings of the importers exist for (their use is otherwise tied only through damaged statements):
// in about one WELL-FORMED statement in twelve of an importer whose reader has TrimLeadingSpace the export puts white
// space between the delimiter and the next field - blanks, a tab, a no-break space (unicode.IsSpace; 0xA0 in the
// ISO 8859-1 text of supercard), also before a quoted field and before the first field of a line.  The reader drops
// it, so the importer sees the same fields and the statement stays well-formed; with the setting off the field keeps
// the blanks (a date or an amount no longer parses) and a quoted field becomes a bare field with a quote
// (csv.ErrBareQuote).
type c13aPadder struct{ on bool }

func c13aNewPadder(r *rng, mal string) c13aPadder {
	return c13aPadder{on: mal == "" && r.chance(8)}
}

func (p c13aPadder) pad(r *rng) string {
	if !p.on || !r.chance(25) {
		return ""
	}
	return pick(r, []string{" ", " ", " ", "  ", "\t", " \t ", "\u00a0", "\u00a0 ", "\u0085"})
}

// a free-text field as an export for a LazyQuotes reader may write it: a double quote inside a field that is not
// quoted (not at its start, where it would open a quoted field)
func c13aLazyField(r *rng, s string, comma byte) (string, bool) {
	if strings.Contains(s, "\"") && !strings.HasPrefix(s, "\"") && !strings.ContainsAny(s, "\n\r") && strings.IndexByte(s, comma) < 0 &&
		strings.TrimLeft(s, " \t\u00a0") == s && r.chance(40) {
		return s, true
	}
	return "", false
}

func c13aAccount(r *rng, liability bool) string {
	if liability {
		return pick(r, []string{"Liabilities:CreditCard", "Liabilities:Cards:Swisscard", "Liabilities:CC2024", "Liabilities:A"})
	}
	return pick(r, []string{"Assets:Postfinance", "Assets:Bank:Checking", "Assets:PF2", "Assets:Bank:Post:Privatkonto"})
}

func c13aHasNewline(ss ...string) bool {
	for _, s := range ss {
		if strings.ContainsAny(s, "\n\r") {
			return true
		}
	}
	return false
}

// a structured booking row; each format renders the parts it has
type c13aRow struct {
	date, date2 time.Time
	amt         c13aAmount
	credit      bool // the amount increases the import account (Gutschrift)
	cur         string
	texts       []string
	comments    []string // cumulus FX comment rows
	kind        string   // "", "rounding", "payment", "saldo", "skip"
	bad         map[string]string
}

func c13aDMY(t time.Time) string { return t.Format("02.01.2006") }
func c13aISO(t time.Time) string { return t.Format("2006-01-02") }

// a double quote in free text is F14; it is kept to about one statement in seven so that the
// other behaviours are exercised on statements whose output knut can read back
func c13aRows(r *rng, n int, curs []string, ntexts int, newlineOK bool) ([]c13aRow, bool) {
	quotesOK := r.chance(15)
	d := c13aNewDates(r)
	rows := make([]c13aRow, n)
	for i := range rows {
		t := d.next()
		rows[i] = c13aRow{date: t, date2: t.AddDate(0, 0, r.intn(4)), amt: c13aGenAmount(r, true), credit: r.chance(30), cur: pick(r, curs)}
		for k := 0; k < ntexts; k++ {
			rows[i].texts = append(rows[i].texts, c13aText(r, newlineOK, quotesOK))
		}
	}
	if r.chance(50) { // newest first, as most banks export
		for i, j := 0, len(rows)-1; i < j; i, j = i+1, j-1 {
			rows[i], rows[j] = rows[j], rows[i]
		}
	}
	return rows, quotesOK
}

func c13aRowCount(r *rng) int {
	switch r.intn(10) {
	case 0:
		return 0
	case 1:
		return 1
	case 2:
		return r.rangeInt(25, 40)
	default:
		return r.rangeInt(2, 12)
	}
}

// ---------------------------------------------------------------- the malformed stream

// one row of a well-formed statement is damaged; what=date|datefmt|amount|cols|cur, or the
// account flag is damaged (acct)
var c13aBadDates = []string{"31.02.2020", "00.01.2020", "15.13.2020", "29.02.2021", "32.01.2020", "31.04.2020",
	"01·02·2020", "x01.02.2020", "01.02.2020x", "01.02.20201", "29.02.1900"}
var c13aBadDateFmts = []string{"2020-02-01", "1.2.2020", "", "aa.bb.cccc", "01/02/2020", "01.02.20", "01.02.2020 "}
var c13aBadAmounts = []string{"12,34", "abc", "1.2.3", "12.50-", "--5", "1 000.00", "CHF", "1e", "."}
var c13aBadCurs = []string{"C-F", "", "CH F", "€", "CHF."}
var c13aBadAccts = []string{"Foo:Bar", "Assets:", "Assets::X", "assets:bank", "Assets:Bank-1", ""}

// ---------------------------------------------------------------- swisscard2

func c13aGenSwisscard2(r *rng, mal string) c13aCase {
	c := c13aCase{imp: "swisscard2", acct: c13aAccount(r, true), hasAcct: true}
	n := c13aRowCount(r)
	if mal != "" && n == 0 {
		n = 3
	}
	rows, quotesOK := c13aRows(r, n, []string{"CHF", "CHF", "CHF", "EUR", "USD"}, 5, true)
	c.quotes = quotesOK
	pd := c13aNewPadder(r, mal)
	bad := -1
	if mal != "" && mal != "acct" {
		bad = r.intn(n)
	}
	var b strings.Builder
	b.WriteString("Transaktionsdatum,Beschreibung,Händler,Kartennummer,Währung,Betrag,Fremdwährung,Betrag in Fremdwährung,Debit/Kredit,Status,Händlerkategorie,Registrierte Kategorie\n")
	for i, row := range rows {
		if !row.credit && r.chance(5) {
			row.amt = c13aExotic(r)
		}
		date := c13aDMY(row.date)
		amount := row.amt.value(row.credit) // a refund is written with a minus sign
		if row.amt.raw != "" {
			amount = row.amt.raw
		}
		cur := row.cur
		dk := "Belastung"
		if row.credit {
			dk = "Gutschrift"
		}
		fields := []string{date, row.texts[0], row.texts[1], "1234XXXXXXXX" + fmt.Sprint(1000+r.intn(9000)), cur, amount, "", "", dk,
			"Gebucht", row.texts[2], row.texts[3]}
		if r.chance(20) {
			fields[6], fields[7] = "EUR", c13aGenAmount(r, false).text()
		}
		if i == bad {
			switch mal {
			case "date":
				fields[0] = pick(r, c13aBadDates)
			case "datefmt":
				fields[0] = pick(r, c13aBadDateFmts)
			case "amount":
				fields[5] = pick(r, append(c13aBadAmounts, "", "1'234.50"))
			case "cur":
				fields[4] = pick(r, c13aBadCurs)
			case "quote":
				fields[pick(r, []int{1, 2, 10})] = c13aBareQuote(r)
			case "cols":
				if r.chance(50) {
					fields = fields[:11]
				} else {
					fields = append(fields, "extra")
				}
			}
		}
		for k, f := range fields {
			if k > 0 {
				b.WriteByte(',')
			}
			b.WriteString(pd.pad(r))
			b.WriteString(c13aCsvField(r, f, ',', r.chance(85)))
		}
		b.WriteString(pick(r, []string{"\n", "\n", "\r\n"}))
		c.nl = c.nl || c13aHasNewline(fields...)
		c.facts = append(c.facts, c13aFact{c13aISO(row.date), row.amt.value(!row.credit), cur, false})
	}
	c.file = []byte(b.String())
	return c
}

// ---------------------------------------------------------------- viac

// round half away from zero to 2 places, on the generator's digits (independent of shopspring)
func c13aRound2(neg bool, ip, fp string, exp int) string {
	v, _ := new(big.Rat).SetString(ip + "." + fp + "0")
	if exp != 0 {
		e := new(big.Rat).SetInt(new(big.Int).Exp(big.NewInt(10), big.NewInt(int64(abs(exp))), nil))
		if exp > 0 {
			v.Mul(v, e)
		} else {
			v.Quo(v, e)
		}
	}
	v.Mul(v, big.NewRat(100, 1))
	q, rem := new(big.Int).QuoRem(v.Num(), v.Denom(), new(big.Int))
	if rem.Mul(rem, big.NewInt(2)).Cmp(v.Denom()) >= 0 {
		q.Add(q, big.NewInt(1))
	}
	res := new(big.Rat).SetFrac(q, big.NewInt(100))
	if neg {
		res.Neg(res)
	}
	return res.FloatString(2)
}

func abs(x int) int {
	if x < 0 {
		return -x
	}
	return x
}

func c13aGenViac(r *rng, mal string) c13aCase {
	c := c13aCase{imp: "viac", acct: pick(r, []string{"Viac", "VIAC3a", "Pillar3a", "V"}), hasAcct: true}
	n := c13aRowCount(r)
	if mal != "" && n == 0 {
		n = 3
	}
	d := c13aNewDates(r)
	var from time.Time
	if mal == "" && r.chance(30) {
		c.hasFrom = true
		from = d.cur.AddDate(0, 0, r.intn(20))
		c.from = c13aISO(from)
	}
	bad := -1
	if mal != "" && mal != "acct" {
		bad = r.intn(n)
	}
	var b strings.Builder
	if r.chance(30) {
		b.WriteString("{\"portfolio\":\"Säule \\\"3a\\\"; x\",\"dailyWealth\":[")
	} else {
		b.WriteString("{\"dailyWealth\":[")
	}
	for i := 0; i < n; i++ {
		t := d.next()
		if r.chance(70) {
			d.cur = t.AddDate(0, 0, 1)
		}
		neg := r.chance(5)
		ip := fmt.Sprint(r.rangeInt(0, 200000))
		fp := ""
		exp := 0
		switch r.intn(8) {
		case 0:
			ip, fp = "0", ""
		case 1:
			ip, fp = "0", pick(r, []string{"001", "004", "005", "0049999", "00500000000000000001", "015", "025"})
		case 2:
			fp = pick(r, []string{"5", "50", "125", "135", "145", "155", "995", "994999", "55627397260273972603"})
		case 3:
			fp = fmt.Sprintf("%02d", r.intn(100))
		case 4:
			fp = fmt.Sprintf("%020d", r.next()%100000000000000000)
		case 5:
			ip, fp, exp = fmt.Sprint(r.rangeInt(1, 9)), fmt.Sprintf("%03d", r.intn(1000)), r.rangeInt(-3, 4)
		}
		lit := ip
		if fp != "" {
			lit += "." + fp
		}
		if exp != 0 {
			lit += pick(r, []string{"e", "E"}) + fmt.Sprint(exp)
		}
		if neg {
			lit = "-" + lit
		}
		date := c13aISO(t)
		if i == bad {
			switch mal {
			case "date", "datefmt":
				date = pick(r, []string{"2020-02-30", "2020-13-01", "01.02.2020", "", "2020-1-1", "2020-01-01T00:00:00Z"})
			case "amount":
				lit = pick(r, []string{"\"abc\"", "null", "\"\"", "\"1,5\"", "true", "[1]"})
			case "cols":
				lit = pick(r, []string{"1}", "1,", "1]"})
			}
		}
		if i > 0 {
			b.WriteByte(',')
		}
		if i == bad && mal == "cur" {
			fmt.Fprintf(&b, "{\"date\":\"%s\"}", date) // no value at all
		} else if r.chance(20) {
			fmt.Fprintf(&b, "{\"value\":%s,\"note\":\"a \\\"b\\\"\",\"date\":\"%s\"}", lit, date)
		} else {
			fmt.Fprintf(&b, "{\"date\":\"%s\",\"value\":%s}", date, lit)
		}
		zero := strings.Trim(ip+fp, "0") == ""
		if !zero && !(c.hasFrom && t.Before(from)) {
			c.facts = append(c.facts, c13aFact{date, c13aRound2(neg, ip, fp, exp), "CHF", false})
		}
	}
	b.WriteString("]}")
	if r.chance(50) {
		b.WriteByte('\n')
	}
	c.file = []byte(b.String())
	return c
}

// ---------------------------------------------------------------- cumulus

func c13aGenCumulus(r *rng, mal string) c13aCase {
	c := c13aCase{imp: "cumulus", acct: c13aAccount(r, true), hasAcct: true}
	n := c13aRowCount(r)
	if mal != "" && n == 0 {
		n = 3
	}
	rows, quotesOK := c13aRows(r, n, []string{"CHF"}, 1, false) // LazyQuotes: keep free text on one line
	c.quotes = quotesOK
	bad := -1
	if mal != "" && mal != "acct" {
		bad = r.intn(n)
	}
	var b strings.Builder
	fld := func(s string) string { return c13aCsvField(r, s, ',', false) }
	two := func(a c13aAmount, credit bool) (string, string) {
		if credit {
			return a.text(), ""
		}
		return "", a.text()
	}
	b.WriteString("Verbucht am,Beschreibung,Gutschrift CHF,Belastung CHF\n")
	if r.chance(60) {
		fmt.Fprintf(&b, "\"\",Saldovortrag letzte Rechnung,,%s\n", c13aGenAmount(r, true).text())
	}
	if r.chance(40) { // the payment of the last bill: a booking of the statement
		t := c13aNewDates(r).next()
		a := c13aGenAmount(r, true)
		fmt.Fprintf(&b, "%s,Ihre LSV-Zahlung - Besten Dank,%s,\n", c13aDMY(t), a.text())
		c.pay++
		c.facts = append(c.facts, c13aFact{c13aISO(t), a.value(false), "CHF", true})
	}
	b.WriteString("Einkaufs-Datum,Verbucht am,Beschreibung,Gutschrift CHF,Belastung CHF\n")
	for i, row := range rows {
		if r.chance(5) {
			row.amt = c13aExotic(r)
		}
		g, l := two(row.amt, row.credit)
		fields := []string{c13aDMY(row.date), c13aDMY(row.date2), row.texts[0], g, l}
		if fields[2] == "" {
			fields[2] = "Kiosk"
		}
		if i == bad {
			switch mal {
			case "date":
				fields[0] = pick(r, c13aBadDates)
			case "datefmt":
				fields[0] = pick(r, c13aBadDateFmts)
			case "amount", "cur":
				switch r.intn(3) {
				case 0:
					fields[3], fields[4] = "", ""
				case 1:
					fields[3], fields[4] = "1.00", "2.00"
				default:
					if row.credit {
						fields[3] = pick(r, c13aBadAmounts)
					} else {
						fields[4] = pick(r, c13aBadAmounts)
					}
				}
			case "cols":
				if r.chance(50) {
					fields = fields[:4]
				} else {
					fields = append(fields, "extra")
				}
			}
		}
		for k, f := range fields {
			if k > 0 {
				b.WriteByte(',')
			}
			if k == 2 {
				if strings.ContainsAny(f, "\"") && !strings.ContainsAny(f, ",\n") && !strings.HasPrefix(f, "\"") && r.chance(40) {
					b.WriteString(f) // a bare quote inside an unquoted field (LazyQuotes)
				} else {
					b.WriteString(fld(f))
				}
			} else {
				b.WriteString(f)
			}
		}
		b.WriteString("\n")
		c.facts = append(c.facts, c13aFact{c13aISO(row.date), row.amt.value(!row.credit), "CHF", false})
		if r.chance(25) {
			k := r.rangeInt(1, 2)
			for ; k > 0; k-- {
				fmt.Fprintf(&b, "\"\",,%s,,\n", fld(c13aComment(r, quotesOK)))
			}
		}
	}
	if r.chance(40) {
		b.WriteString("Verbucht am,Beschreibung,Gutschrift CHF,Belastung CHF\n")
		t := c13aNewDates(r).next()
		a := c13aAmount{ip: "0", fp: fmt.Sprintf("%02d", r.rangeInt(1, 4))}
		credit := r.chance(50)
		g, l := two(a, credit)
		fmt.Fprintf(&b, "%s,Rundungskorrektur,%s,%s\n", c13aDMY(t), g, l)
		c.facts = append(c.facts, c13aFact{c13aISO(t), a.value(!credit), "CHF", false})
	}
	c.file = []byte(b.String())
	return c
}

// ---------------------------------------------------------------- postfinance

func c13aGenPostfinance(r *rng, mal string) c13aCase {
	c := c13aCase{imp: "postfinance", acct: c13aAccount(r, false), hasAcct: true}
	n := c13aRowCount(r)
	if mal != "" && n == 0 {
		n = 3
	}
	cur := pick(r, []string{"CHF", "CHF", "EUR", "USD"})
	rows, quotesOK := c13aRows(r, n, []string{cur}, 3, false)
	c.quotes = quotesOK
	pd := c13aNewPadder(r, mal)
	bad := -1
	if mal != "" && mal != "acct" {
		bad = r.intn(n)
	}
	var b strings.Builder
	if r.chance(50) {
		b.WriteString("\xef\xbb\xbf")
	}
	nlc := pick(r, []string{"\n", "\r\n"})
	b.WriteString("Buchungsart:;=\"Alle Buchungen\"" + nlc)
	b.WriteString("Konto:;=\"CH4609000000877991229\"" + nlc)
	hasCur := cur != "CHF" || r.chance(80)
	if hasCur {
		if mal == "cur" {
			cur = pick(r, c13aBadCurs)
		}
		b.WriteString("Währung:;=\"" + cur + "\"" + nlc)
	} else if mal == "cur" {
		b.WriteString("Währung:;=\"C F\"" + nlc)
	}
	b.WriteString(nlc)
	with8 := r.chance(70)
	if with8 {
		fmt.Fprintf(&b, "Buchungsdatum;Avisierungstext;Gutschrift in %s;Lastschrift in %s;Label;Kategorie;Valuta;Saldo in %s%s", cur, cur, cur, nlc)
	} else {
		fmt.Fprintf(&b, "Buchungsdatum;Avisierungstext;Gutschrift in %s;Lastschrift in %s;Label;Kategorie;Valuta%s", cur, cur, nlc)
	}
	b.WriteString(nlc)
	for i, row := range rows {
		g, l := "", ""
		if row.credit {
			g = row.amt.text()
		} else {
			l = "-" + row.amt.text()
		}
		label, kat := row.texts[1], row.texts[2]
		if r.chance(50) {
			label, kat = "", ""
		}
		fields := []string{c13aDMY(row.date), row.texts[0], g, l, label, kat, c13aDMY(row.date2)}
		if with8 {
			if r.chance(70) {
				fields = append(fields, c13aGenAmount(r, true).text())
			} else {
				fields = append(fields, "")
			}
		}
		if i == bad {
			switch mal {
			case "date":
				fields[0] = pick(r, c13aBadDates)
			case "datefmt":
				fields[0] = pick(r, c13aBadDateFmts)
			case "amount":
				switch r.intn(3) {
				case 0:
					fields[2], fields[3] = "", ""
				case 1:
					fields[2], fields[3] = "1.00", "-2.00"
				default:
					if row.credit {
						fields[2] = pick(r, c13aBadAmounts)
					} else {
						fields[3] = pick(r, c13aBadAmounts)
					}
				}
			case "cols":
				if r.chance(50) {
					fields = fields[:6]
				} else {
					fields = append(fields, "extra", "more")
				}
			}
		}
		for k, f := range fields {
			if k > 0 {
				b.WriteByte(';')
			}
			b.WriteString(pd.pad(r))
			if k == 1 || k == 4 || k == 5 {
				if raw, ok := c13aLazyField(r, f, ';'); ok {
					b.WriteString(raw) // a bare quote inside an unquoted field (LazyQuotes)
				} else {
					b.WriteString(c13aCsvField(r, f, ';', false))
				}
			} else {
				b.WriteString(f)
			}
		}
		b.WriteString(nlc)
		c.facts = append(c.facts, c13aFact{c13aISO(row.date), row.amt.value(!row.credit), cur, false})
	}
	b.WriteString(nlc)
	b.WriteString("Disclaimer:" + nlc)
	b.WriteString("Dies ist kein durch PostFinance AG erstelltes Dokument. PostFinance AG ist nicht verantwortlich für den Inhalt." + nlc)
	c.file = []byte(b.String())
	return c
}

// ---------------------------------------------------------------- swisscard

func c13aGenSwisscard(r *rng, mal string) c13aCase {
	c := c13aCase{imp: "swisscard", acct: c13aAccount(r, true), hasAcct: true}
	n := c13aRowCount(r)
	if mal != "" && n == 0 {
		n = 3
	}
	rows, quotesOK := c13aRows(r, n, []string{"CHF"}, 4, true)
	c.quotes = quotesOK
	pd := c13aNewPadder(r, mal)
	bad := -1
	if mal != "" && mal != "acct" {
		bad = r.intn(n)
	}
	var b strings.Builder
	b.WriteString("Transaction Date, Posting Date, Card Number ,Billing Amount, Description, Merchant City , Merchant State , Merchant Zip , Reference Number , Debit/Credit Flag , SICMCC Code\n")
	for i, row := range rows {
		amount := "CHF" + row.amt.text()
		flag := "D"
		if row.credit {
			amount, flag = "-"+amount, "C"
		}
		fields := []string{c13aDMY(row.date), c13aDMY(row.date2), fmt.Sprint(1000 + r.intn(9000)), amount, row.texts[0], row.texts[1],
			pick(r, []string{"CHE", "", "DEU", " "}), pick(r, []string{"8003", "", "1200"}), fmt.Sprint(r.intn(100)), flag, pick(r, []string{"5411", "", "5812"})}
		if i == bad {
			switch mal {
			case "date":
				fields[0] = pick(r, c13aBadDates)
			case "datefmt":
				fields[0] = pick(r, c13aBadDateFmts)
			case "amount", "cur":
				fields[3] = pick(r, append(c13aBadAmounts, "", "EUR12.50", "CHF 12.50"))
			case "cols":
				if r.chance(50) {
					fields = fields[:10]
				} else {
					fields = append(fields, "extra")
				}
			}
		}
		for k, f := range fields {
			if k > 0 {
				b.WriteByte(',')
				if r.chance(10) {
					b.WriteByte(' ')
				}
			}
			b.WriteString(pd.pad(r))
			if k == 4 || k == 5 || k == 8 {
				b.WriteString(c13aCsvField(r, f, ',', r.chance(80)))
			} else {
				b.WriteString(c13aCsvField(r, f, ',', false))
			}
		}
		b.WriteString(pick(r, []string{"\n", "\n", "\n", "\r\n"}))
		c.nl = c.nl || c13aHasNewline(fields...)
		c.facts = append(c.facts, c13aFact{c13aISO(row.date), row.amt.value(!row.credit), "CHF", false})
	}
	c.file = []byte(b.String())
	return c
}

// ---------------------------------------------------------------- supercard

func c13aLatin1(s string) ([]byte, bool) {
	out := make([]byte, 0, len(s))
	for _, c := range s {
		if c > 255 {
			return nil, false
		}
		out = append(out, byte(c))
	}
	return out, true
}

func c13aGenSupercard(r *rng, mal string) c13aCase {
	c := c13aCase{imp: "supercard", acct: c13aAccount(r, true), hasAcct: true}
	n := c13aRowCount(r)
	if mal != "" && n == 0 {
		n = 3
	}
	rows, quotesOK := c13aRows(r, n, []string{"CHF", "CHF", "CHF", "EUR"}, 2, true)
	c.quotes = quotesOK
	pd := c13aNewPadder(r, mal)
	bad := -1
	if mal != "" && mal != "acct" {
		bad = r.intn(n)
	}
	var b strings.Builder
	b.WriteString("sep=;\n")
	b.WriteString("Kontonummer;Kartennummer;Konto-/Karteninhaber;Einkaufsdatum;Buchungstext;Branche;Betrag;Originalwährung;Kurs;Währung;Belastung;Gutschrift;Buchung\n")
	if r.chance(40) {
		fmt.Fprintf(&b, "1425 0000 0000;;;;Saldovortrag;;;;;CHF;%s; ;%s\n", c13aGenAmount(r, false).text(), "01.01.2021")
	}
	for i, row := range rows {
		for k := range row.texts { // the file is ISO 8859-1: keep what that character set can carry
			if _, ok := c13aLatin1(row.texts[k]); !ok {
				row.texts[k] = pick(r, []string{"Ärztliche Dienstleistungen", "Café Zürich", "Elektronikgeschäfte, Radio/TV", "Tankstelle; Shop", "×÷ÿ§"})
			}
		}
		if mal == "" && r.chance(3) {
			// every byte 0x80..0xFF once (ties Model/CsvLatin1.v latin1_decode to charmap.ISO8859_1 over the whole upper half)
			var hi []rune
			for c := rune(0x80); c <= 0xFF; c++ {
				hi = append(hi, c)
			}
			row.texts[1] = "hi " + string(hi) + " end"
		}
		if r.chance(5) {
			row.amt = c13aExotic(r)
		}
		bel, gut := row.amt.written(), " "
		if row.credit {
			bel, gut = " ", row.amt.written()
		}
		fields := []string{"1425 0000 0000", "1111 2222 3333 4444", "OWNER", c13aDMY(row.date), row.texts[0], row.texts[1], row.amt.written(),
			row.cur, " ", row.cur, bel, gut, c13aDMY(row.date2)}
		if fields[4] == "" {
			fields[4] = "X"
		}
		if i == bad {
			switch mal {
			case "date":
				fields[3] = pick(r, c13aBadDates)
			case "datefmt":
				fields[3] = pick(r, c13aBadDateFmts)
			case "amount":
				switch r.intn(2) {
				case 0:
					fields[10], fields[11] = " ", " "
				default:
					if row.credit {
						fields[11] = pick(r, c13aBadAmounts)
					} else {
						fields[10] = pick(r, c13aBadAmounts)
					}
				}
			case "cur":
				fields[9] = pick(r, c13aBadCurs)
				if _, ok := c13aLatin1(fields[9]); !ok {
					fields[9] = "C$F"
				}
			case "cols":
				switch r.intn(3) {
				case 0:
					fields = fields[:12]
				case 1:
					fields = fields[:11] // the importer ignores every 11-field record
				default:
					fields = append(fields, "extra")
				}
			}
		}
		for k, f := range fields {
			if k > 0 {
				b.WriteByte(';')
			}
			b.WriteString(pd.pad(r))
			if k == 4 || k == 5 {
				b.WriteString(c13aCsvField(r, f, ';', false))
			} else {
				b.WriteString(f)
			}
		}
		b.WriteString(pick(r, []string{"\n", "\n", "\n", "\r\n"}))
		c.nl = c.nl || c13aHasNewline(fields...)
		c.facts = append(c.facts, c13aFact{c13aISO(row.date), row.amt.value(!row.credit), row.cur, false})
	}
	if r.chance(40) { // totals: no account number, or the short 11-field form
		if r.chance(50) {
			fmt.Fprintf(&b, ";;;;Total;;;;;CHF;%s; ;\n", c13aGenAmount(r, false).text())
		} else {
			fmt.Fprintf(&b, "1425 0000 0000;;;;Total Karte;;;;;CHF;%s\n", c13aGenAmount(r, false).text())
		}
	}
	data, ok := c13aLatin1(b.String())
	if !ok {
		panic("supercard generator produced text outside ISO 8859-1")
	}
	c.file = data
	return c
}

// ---------------------------------------------------------------- generator entry

var c13aGenFuncs = map[string]func(r *rng, mal string) c13aCase{
	"swisscard2": c13aGenSwisscard2, "viac": c13aGenViac, "cumulus": c13aGenCumulus,
	"postfinance": c13aGenPostfinance, "swisscard": c13aGenSwisscard, "supercard": c13aGenSupercard,
}

var c13aMalKinds = []string{"date", "datefmt", "amount", "cols", "cur", "acct", "quote"}

// genC13a: n well-formed statements per importer and n/3 damaged ones; args may name a subset
// of importers.
func genC13a(out *caseWriter, seed uint64, n int, args []string) error {
	imps := c13aImporters
	if len(args) > 0 {
		imps = args
	}
	var items []caseIn
	for _, imp := range imps {
		g, ok := c13aGenFuncs[imp]
		if !ok {
			return fmt.Errorf("unknown importer %s", imp)
		}
		for i := 0; i < n; i++ {
			r := newRng(seed, "C13a."+imp, i)
			c := g(r, "")
			c.kind = "wf"
			items = append(items, caseIn{fmt.Sprintf("C13a-%s-%d-%d", imp, seed, i), "C13." + imp, c.enc()})
		}
		for i := 0; i < (n+2)/3; i++ {
			r := newRng(seed, "C13a.mal."+imp, i)
			mal := c13aMalKinds[i%len(c13aMalKinds)]
			c := g(r, mal)
			c.kind = "mal:" + mal
			c.facts = nil
			if mal == "acct" {
				switch r.intn(4) {
				case 0:
					c.hasAcct = false // flag omitted
				default:
					c.acct = pick(r, c13aBadAccts)
					if imp == "viac" {
						c.acct = pick(r, []string{"", "V-1", "a b", "CHF."})
					}
				}
			}
			items = append(items, caseIn{fmt.Sprintf("C13a-%s-mal-%d-%d", imp, seed, i), "C13." + imp, c.enc()})
		}
	}
	out.addBatch(items)
	return nil
}
