package main

// Helpers shared by the observers that run the knut binary (C18, C19): escaping of
// multi-line strings into the single-line case format, running a command under a timeout,
// and the `rlimit` re-exec wrapper.

import (
	"bytes"
	"context"
	"fmt"
	"os"
	"os/exec"
	"strconv"
	"strings"
	"syscall"
	"time"
)

func init() {
	subcommands["rlimit"] = rlimitMain
}

// esc makes s a single line without tabs: \n -> \\n, tab -> \\t, backslash -> \\\\,
// and the field separators '|' -> \\p, ';' -> \\s.
func vesc(s string) string {
	var b strings.Builder
	for i := 0; i < len(s); i++ {
		switch c := s[i]; c {
		case '\\':
			b.WriteString(`\\`)
		case '\n':
			b.WriteString(`\n`)
		case '\t':
			b.WriteString(`\t`)
		case '\r':
			b.WriteString(`\r`)
		case '|':
			b.WriteString(`\p`)
		case ';':
			b.WriteString(`\s`)
		default:
			b.WriteByte(c)
		}
	}
	return b.String()
}

func vunesc(s string) string {
	var b strings.Builder
	for i := 0; i < len(s); i++ {
		if s[i] != '\\' || i+1 >= len(s) {
			b.WriteByte(s[i])
			continue
		}
		i++
		switch s[i] {
		case 'n':
			b.WriteByte('\n')
		case 't':
			b.WriteByte('\t')
		case 'r':
			b.WriteByte('\r')
		case 'p':
			b.WriteByte('|')
		case 's':
			b.WriteByte(';')
		default:
			b.WriteByte(s[i])
		}
	}
	return b.String()
}

type vRunResult struct {
	exit   string // "0", "1", ..., "HANG", "SIG<n>", "ERR"
	stdout []byte
	stderr []byte
}

// runCmd runs argv with extra environment under a timeout; the process group is killed on
// timeout, which is reported as exit "HANG".
func runCmd(timeout time.Duration, env []string, dir string, argv ...string) vRunResult {
	ctx, cancel := context.WithTimeout(context.Background(), timeout)
	defer cancel()
	cmd := exec.CommandContext(ctx, argv[0], argv[1:]...)
	cmd.Env = append(os.Environ(), env...)
	cmd.Dir = dir
	var so, se bytes.Buffer
	cmd.Stdout, cmd.Stderr = &so, &se
	cmd.WaitDelay = 2 * time.Second
	err := cmd.Run()
	res := vRunResult{stdout: so.Bytes(), stderr: se.Bytes()}
	switch {
	case ctx.Err() == context.DeadlineExceeded:
		res.exit = "HANG"
	case err == nil:
		res.exit = "0"
	default:
		if ee, ok := err.(*exec.ExitError); ok {
			if ws, ok := ee.Sys().(syscall.WaitStatus); ok && ws.Signaled() {
				res.exit = "SIG" + strconv.Itoa(int(ws.Signal()))
			} else {
				res.exit = strconv.Itoa(ee.ExitCode())
			}
		} else {
			res.exit = "ERR"
		}
	}
	return res
}

// rlimitMain: `verifharness rlimit <bytes> <cmd> [args...]` sets RLIMIT_FSIZE (soft and hard)
// to <bytes> and execs the command.  Go programs get EFBIG from write(2) (the Go runtime
// handles SIGXFSZ without terminating when the write is made through os.File).
func rlimitMain(args []string) {
	if len(args) < 2 {
		fmt.Fprintln(os.Stderr, "usage: verifharness rlimit <bytes> <cmd> [args...]")
		os.Exit(2)
	}
	n, err := strconv.ParseUint(args[0], 10, 64)
	if err != nil {
		fmt.Fprintln(os.Stderr, "rlimit:", err)
		os.Exit(2)
	}
	lim := syscall.Rlimit{Cur: n, Max: n}
	if err := syscall.Setrlimit(syscall.RLIMIT_FSIZE, &lim); err != nil {
		fmt.Fprintln(os.Stderr, "setrlimit:", err)
		os.Exit(2)
	}
	path, err := exec.LookPath(args[1])
	if err != nil {
		fmt.Fprintln(os.Stderr, "rlimit:", err)
		os.Exit(2)
	}
	if err := syscall.Exec(path, args[1:], os.Environ()); err != nil {
		fmt.Fprintln(os.Stderr, "exec:", err)
		os.Exit(2)
	}
}

func workTemp(prefix string) string {
	d, err := os.MkdirTemp(os.TempDir(), prefix)
	if err != nil {
		panic(err)
	}
	return d
}

// retryHang wraps an observer that runs the binary under a timeout: an observation that reports a hang is made a
// second time (in a fresh directory; every observer builds its own).  A real hang hangs again; a stall of a
// heavily loaded machine (one HANG in 211 000 fault runs of a thorough tier that shared 16 cores with other jobs)
// does not.  marker is the text the observation carries for a hang.
func retryHang(obs func(string) string, marker string) func(string) string {
	return func(in string) string {
		out := obs(in)
		if strings.Contains(out, marker) {
			out = obs(in)
		}
		return out
	}
}
