package main

import (
	"fmt"
	"strings"
	"time"
)

func init() {
	observers["core.bal"] = obsBalance
	observers["core.check"] = obsCheck
	gens["core"] = genCore
}

var allComs = []string{"CHF", "USD", "EUR", "AAPL", "BTC"}

func rxFor(r *rng, names []string) string {
	// cuts are made between runes: a cut inside a multi-byte character gives an expression that is not valid UTF-8,
	// which regexp.Compile rejects (the flag families of C14 cover rejected expressions)
	n := []rune(pick(r, names))
	switch r.intn(4) {
	case 0:
		return "^" + string(n)
	case 1:
		if len(n) > 4 {
			return string(n[len(n)-4:]) + "$"
		}
		return string(n) + "$"
	case 2:
		if len(n) > 3 {
			a := r.intn(len(n) - 2)
			return string(n[a : a+2+r.intn(len(n)-a-2)])
		}
		return string(n)
	default:
		return string(n)
	}
}

func journalAccounts(j Journal) []string {
	seen := map[string]bool{}
	var out []string
	for _, d := range j {
		if d.Kind == 'O' && !seen[d.Acc] {
			seen[d.Acc] = true
			out = append(out, d.Acc)
		}
	}
	return out
}

// genBalCfg draws a flag combination.  level: 0 = plain windows only, 1 = + valuation,
// 2 = + mappings/remap/filters
func genBalCfg(r *rng, j Journal, o genOpts, valued bool, structure bool) BalCfg {
	c := BalCfg{From: "-", To: dateStr(o.startDate.AddDate(0, 0, o.days+r.rangeInt(-20, 40))), Interval: "once", Val: "-", Alpha: true, CSV: true, Close: r.chance(60)}
	if r.chance(50) {
		c.From = dateStr(o.startDate.AddDate(0, 0, r.rangeInt(-10, o.days/2)))
	}
	c.Interval = pick(r, []string{"once", "once", "daily", "weekly", "monthly", "monthly", "quarterly", "yearly"})
	if c.Interval == "daily" && o.days > 120 {
		c.Interval = "weekly"
	}
	if r.chance(30) {
		c.Last = pick(r, []int{1, 2, 3, 5})
	}
	c.Diff = r.chance(35)
	if valued {
		c.Val = pick(r, []string{"CHF", "CHF", "USD"})
		if r.chance(30) {
			c.Show = []string{rxFor(r, journalAccounts(j))}
		}
	}
	if structure {
		accs := journalAccounts(j)
		if r.chance(40) {
			n := 1 + r.intn(2)
			for i := 0; i < n; i++ {
				lv := r.rangeInt(1, 3)
				m := fmt.Sprintf("%d", lv)
				m += "," + rxFor(r, accs)
				c.Map = append(c.Map, m)
			}
		}
		if r.chance(20) {
			c.Remap = []string{rxFor(r, accs)}
		}
		if r.chance(20) {
			c.Acc = []string{rxFor(r, accs)}
		}
		if r.chance(15) {
			c.Com = []string{pick(r, o.commodities)}
		}
	}
	return c
}

func defaultOpts(r *rng) genOpts {
	start, days := genSpan(r, 5, 300)
	coms := allComs[:r.rangeInt(1, 4)]
	if r.chance(10) {
		// two commodities whose names differ only in the case of letters (legal and distinct: oz and OZ): any
		// case-insensitive comparison makes them tie (seeded change C06d-commodity-compare-case-insensitive)
		c := coms[len(coms)-1]
		coms = append(append([]string{}, coms...), strings.ToLower(c))
		if r.chance(40) {
			coms = append(coms, c[:1]+strings.ToLower(c[1:]))
		}
	}
	return genOpts{
		nAccounts: r.rangeInt(5, 10), nTxn: r.rangeInt(3, 25),
		commodities: coms, prices: true, accruals: r.chance(40), perf: r.chance(30),
		assertions: r.chance(60), closes: r.chance(40),
		startDate: start, days: days,
		manyDec: r.chance(30),
	}
}

// genCore: accepted journals x flag combinations through `knut balance --csv`
func genCore(out *caseWriter, seed uint64, n int, args []string) error {
	var items []caseIn
	for i := 0; i < n; i++ {
		r := newRng(seed, "core", i)
		o := defaultOpts(r)
		j := genJournal(r, o)
		cfg := genBalCfg(r, j, o, r.chance(50), r.chance(50))
		items = append(items, caseIn{fmt.Sprintf("core-%d-%d", seed, i), "core.bal", cfg.Enc() + " | " + j.Enc()})
	}
	out.addBatch(items)
	return nil
}

func init() {
	// debugging aid: first line of stderr of `knut balance`
	observers["dbg.stderr"] = func(in string) string {
		cfgS, jS := splitInput(in)
		cfg := DecodeBalCfg(cfgS)
		j := DecodeJournal(jS)
		var out string
		withTempDir(func(dir string) {
			f := writeFile(dir, "journal.knut", j.Text())
			r := runKnut(knutBin(), dir, nil, 20*time.Second, append(cfg.Args(), f)...)
			out = esc(r.Stderr)
			if len(out) > 200 {
				out = out[:200]
			}
		})
		return out
	}
}

// obsPrint runs `knut print`
func obsPrint(in string) string {
	_, jS := splitInput(in)
	j := DecodeJournal(jS)
	var out string
	withTempDir(func(dir string) {
		f := writeFile(dir, "journal.knut", j.Text())
		out = renderRun(runKnut(knutBin(), dir, nil, 20*time.Second, "print", f))
	})
	return out
}

func init() {
	observers["core.print"] = obsPrint
	gens["coreprint"] = func(out *caseWriter, seed uint64, n int, args []string) error {
		var items []caseIn
		for i := 0; i < n; i++ {
			r := newRng(seed, "coreprint", i)
			o := defaultOpts(r)
			j := genJournal(r, o)
			items = append(items, caseIn{fmt.Sprintf("coreprint-%d-%d", seed, i), "core.print", "- | " + j.Enc()})
		}
		out.addBatch(items)
		return nil
	}
}
