package main

import (
	"encoding/hex"
	"fmt"
	"strings"
)

// C07leaf: every leaf class (date, account, decimal, commodity, interval, quoted string) and every
// directive keyword, in every syntactic position where the grammar has it, once well-formed and in a
// list of near-miss spellings (a digit short, a trailing ':', a second '.', a missing quote, ...).
// Deterministic (no randomness): the cases aim at parsers that accept a leaf outside its lexical
// class, which wf_leaves_b / wf_glue_b (Spec/LeafSpec.v) catch on the returned tree.
// The "sep-*" sites do the same for the SEPARATORS between the leaves of a node (Spec/SepSpec.v,
// wf_separators_b): every separator position of a booking, a balance line, a price, an @accrue
// line, the @performance list and the line ends, spelled with one blank, several, a tab, a CR,
// nothing, a newline, a non-breaking space, a comma; two commas, leading and trailing commas.

func init() {
	gens["C07leaf"] = genC07Leaf
}

const c07TrxTail = "2020-01-01 \"x\"\nA B 1 C\n"

var c07LeafSites = []struct {
	class    string
	contexts []string // %s = the leaf
	variants []string
}{
	{"date",
		[]string{"%s open A\n", "%s close A\n", "%s price A 1 B\n", "%s balance A 1 B\n", "%s \"x\"\nA B 1 C\n",
			"@accrue monthly %s 2020-12-31 A:B\n" + c07TrxTail, "@accrue monthly 2020-01-01 %s A:B\n" + c07TrxTail},
		[]string{"2020-01-01", "2020-01-1", "2020-1-01", "202-01-01", "2020-01-011", "20200-01-01", "2020-01-", "2020-01", "2020--01-01",
			"2020-01-0a", "2020-0a-01", "٢٠٢٠-٠١-٠١", "2020-01-0١", "2020/01/01", "2020-01_01", "2020‐01‐01", "２０２０-01-01", "2020-01-01-"}},
	{"account",
		[]string{"2020-01-01 open %s\n", "2020-01-01 close %s\n", "2020-01-01 \"x\"\n%s B 1 C\n", "2020-01-01 \"x\"\nA %s 1 C\n",
			"2020-01-01 balance %s 1 C\n", "2020-01-01 balance\n%s 1 C\n", "@accrue monthly 2020-01-01 2020-12-31 %s\n" + c07TrxTail},
		[]string{"A", "A:B", "A:B:C9", "A:", ":A", "A::B", "A:B:", "$a", "$", "$a1", "$1", "$a:b", "A$", "Ä:ß", "A.B", "A-B", "1:2", "A: B", "A :B",
			"A:\xc3", "A\xff", "$\xc3\xa4", "A:$b"}},
	{"decimal",
		[]string{"2020-01-01 \"x\"\nA B %s C\n", "2020-01-01 balance A %s C\n", "2020-01-01 balance\nA %s C\n", "2020-01-01 price A %s B\n"},
		[]string{"1", "-1", "1.5", "-10.50", "007", "1.", ".5", "-.5", "--1", "1.5.2", "1,5", "+1", "-", "1e5", "١.٥", "1.-5", "-1.", "1 .5", "1. 5", "1..5", "１", "1'000"}},
	{"commodity",
		[]string{"2020-01-01 \"x\"\nA B 1 %s\n", "2020-01-01 balance A 1 %s\n", "2020-01-01 price %s 1 B\n", "2020-01-01 price A 1 %s\n",
			"@performance(%s)\n" + c07TrxTail, "@performance(A, %s)\n" + c07TrxTail, "@performance( %s , B)\n" + c07TrxTail},
		[]string{"C", "C1", "1", "", "C-D", "C.D", "C:D", "$C", "Ć", "C\xff", "C D", "C_D", "C,", "C)"}},
	{"interval",
		[]string{"@accrue %s 2020-01-01 2020-12-31 A\n" + c07TrxTail},
		[]string{"daily", "weekly", "monthly", "quarterly", "yearly", "month", "monthlyx", "dailyweekly", "", "Monthly", "once", "d"}},
	{"quoted",
		[]string{"2020-01-01 %s\nA B 1 C\n", "include %s\n", "@performance(A)\ninclude %s\n"},
		[]string{"\"x\"", "\"\"", "\"x", "x\"", "\"a\"b\"", "'x'", "\"\xff\"", "\"ä\"", "\"a\nb\"", "\"x\"\"", "\"\\\"\"", "“x”"}},
	{"keyword",
		[]string{"2020-01-01 %s A\n", "2020-01-01 %s A 1 B\n", "2020-01-01 %s\nA 1 B\n", "2020-01-01  %s\tA\n", "2020-01-01%s A\n", "2020-01-01 %sA\n"},
		[]string{"open", "close", "price", "balance", "Open", "opening", "ope", "balances", "closed", "prices", "open close", "\"open\"", "include"}},
	{"addon-keyword",
		[]string{"%s\n" + c07TrxTail, "%s\n2020-01-01 open A\n"},
		[]string{"@performance(A)", "@performance (A)", "@performanceA)", "@performance(A", "@Performance(A)", "@perf(A)", "@performances(A)",
			"@accrue monthly 2020-01-01 2020-12-31 A", "@accruemonthly 2020-01-01 2020-12-31 A", "@accrued monthly 2020-01-01 2020-12-31 A",
			"@accrue  monthly\t2020-01-01 2020-12-31   A", "@accrue monthly 2020-01-012020-12-31 A", "@accrue monthly2020-01-01 2020-12-31 A",
			"@accrue monthly 2020-01-01 2020-12-31A"}},
	{"sep-blank", // %s = what stands between two leaves where the grammar wants blank+
		[]string{"2020-01-01 \"x\"\nA%sB 1 C\n", "2020-01-01 \"x\"\nA B%s1 C\n", "2020-01-01 \"x\"\nA B 1%sC\n",
			"2020-01-01 \"x\"\nA B 1 C\nD%sE 2 F\n",
			"2020-01-01 balance A%s1 C\n", "2020-01-01 balance A 1%sC\n", "2020-01-01 balance\nA%s1 C\n", "2020-01-01 balance\nA 1%sC\nD 2 E\n",
			"2020-01-01 price A%s1 B\n", "2020-01-01 price A 1%sB\n", "2020-01-01 price A 1%sB",
			"@accrue monthly%s2020-01-01 2020-12-31 A:B\n" + c07TrxTail, "@accrue monthly 2020-01-01%s2020-12-31 A:B\n" + c07TrxTail,
			"@accrue monthly 2020-01-01 2020-12-31%sA:B\n" + c07TrxTail, "@accrue%smonthly 2020-01-01 2020-12-31 A:B\n" + c07TrxTail},
		[]string{" ", "  ", "\t", " \t ", "\r", "", "\n", " \n", "\n ", "\u00a0", ",", " , ", "\v", "\f", "\u2003", ":", "-"}},
	{"sep-perf", // the argument list of @performance
		[]string{"@performance(%s)\n" + c07TrxTail, "@performance%s\n" + c07TrxTail},
		[]string{"A,B", "A, B", "A ,B", " A , B ", "A,\tB", "A\t,B", "\tA\t", "A,,B", "A, ,B", "A,B,", "A,B, ", ",A", " ,A", ",", ", ", "", " ", "\t \t",
			"A B", "A;B", "A,\nB", "A\n,B", "A,B\n", "\nA", "A,B,C,D", "A , B , C", "A,B)", "(A,B", "A,(B)", "A\u00a0,B", "A,\u00a0B", "(A)", "( A,B )", "()", "( )", "(,)", "(A,)", "(A,,B)", "(A B)"}},
	{"sep-line", // what stands at the end of a line inside a directive
		[]string{"2020-01-01 \"x\"%sA B 1 C\n", "2020-01-01 \"x\"\nA B 1 C%sD E 2 F\n", "2020-01-01 \"x\"\nA B 1 C%s", "2020-01-01 balance%sA 1 C\n",
			"2020-01-01 balance\nA 1 C%sD 2 E\n", "2020-01-01 balance\nA 1 C%s", "@performance(A)%s" + c07TrxTail, "@accrue monthly 2020-01-01 2020-12-31 A%s" + c07TrxTail,
			"@performance(A)%s@accrue monthly 2020-01-01 2020-12-31 A\n" + c07TrxTail, "@accrue monthly 2020-01-01 2020-12-31 A%s@performance(A)\n" + c07TrxTail,
			"@performance(A)%s2020-01-01 open A\n", "@performance(A)%sinclude \"x\"\n"},
		[]string{"\n", " \n", "\t\n", "\r\n", " \r\n", "  \t \n", "", " ", "\r", "\n\n", "\n \n", " \n ", "\n\t", " x\n", " # c\n", " // c\n", ";\n", "\u00a0\n", "\n\u00a0"}},
	{"include-keyword",
		[]string{"%s\n"},
		[]string{"include \"x\"", "include\"x\"", "include  \t\"x\"", "includes \"x\"", "Include \"x\"", "includ \"x\"", "include\n\"x\""}},
}

func genC07Leaf(out *caseWriter, _ uint64, _ int, _ []string) error {
	for _, site := range c07LeafSites {
		i := 0
		for _, ctx := range site.contexts {
			for _, v := range site.variants {
				text := strings.Replace(ctx, "%s", v, 1)
				out.add(fmt.Sprintf("C07leaf-%s-%d", site.class, i), "C07.parse", hex.EncodeToString([]byte(text)))
				i++
			}
		}
	}
	return nil
}
