package main

// C06.reg: `knut register --color=false` with a generated flag combination on a generated
// journal spread over an include tree, run several times under schedule perturbation and
// varied GOMAXPROCS.  All runs must agree (stdout bytes and exit class), and the first run is
// handed to the check, which compares it byte for byte with the extracted model
// (coq/Model/Register.v register_text).  The generator makes journals with few days and many
// transactions per day, repeated (Dest, Commodity) pairs with different sources and
// descriptions (the rows that tied under the pinned comparison of renderNode, finding
// C06-register-row-order), descriptions longer than 100 bytes, and, in at most 5% of the cases,
// a level-0 mapping rule (Shorten hides the Dest account: the current code dereferences nil,
// finding C06-register-hidden-dest-panic; the model says CPanic and the classes are compared).

import (
	"fmt"
	"strings"
	"time"
)

func init() {
	observers["C06.reg"] = obsC06Reg
	gens["C06reg"] = genC06Reg
}

type RegCfg struct {
	From, To  string // "-" when absent
	Interval  string
	Last      int
	Val       string // "-" when absent
	ShowCom   bool   // -c
	ShowDesc  bool   // -d
	ShowSrc   bool   // -a
	Alpha     bool   // -s
	Map       []string
	Remap     []string
	Src       []string // --source
	Dst       []string // --dest
	Com       []string // --commodity
	Digits    int
	Thousands bool
}

func (c RegCfg) Enc() string {
	return fmt.Sprintf("from=%s to=%s iv=%s last=%d val=%s c=%s d=%s a=%s s=%s map=%s remap=%s src=%s dst=%s com=%s digits=%d k=%s",
		c.From, c.To, c.Interval, c.Last, c.Val, b2s(c.ShowCom), b2s(c.ShowDesc), b2s(c.ShowSrc), b2s(c.Alpha),
		listEnc(c.Map), listEnc(c.Remap), listEnc(c.Src), listEnc(c.Dst), listEnc(c.Com), c.Digits, b2s(c.Thousands))
}

func DecodeRegCfg(s string) RegCfg {
	var c RegCfg
	for _, kv := range strings.Fields(s) {
		i := strings.Index(kv, "=")
		if i < 0 {
			continue
		}
		k, v := kv[:i], kv[i+1:]
		switch k {
		case "from":
			c.From = v
		case "to":
			c.To = v
		case "iv":
			c.Interval = v
		case "last":
			fmt.Sscanf(v, "%d", &c.Last)
		case "val":
			c.Val = v
		case "c":
			c.ShowCom = v == "1"
		case "d":
			c.ShowDesc = v == "1"
		case "a":
			c.ShowSrc = v == "1"
		case "s":
			c.Alpha = v == "1"
		case "map":
			c.Map = listDec(v)
		case "remap":
			c.Remap = listDec(v)
		case "src":
			c.Src = listDec(v)
		case "dst":
			c.Dst = listDec(v)
		case "com":
			c.Com = listDec(v)
		case "digits":
			fmt.Sscanf(v, "%d", &c.Digits)
		case "k":
			c.Thousands = v == "1"
		}
	}
	return c
}

func (c RegCfg) Args() []string {
	a := []string{"register", "--color=false"}
	if c.From != "-" && c.From != "" {
		a = append(a, "--from", c.From)
	}
	if c.To != "-" && c.To != "" {
		a = append(a, "--to", c.To)
	}
	if f := ivFlag[c.Interval]; f != "" {
		a = append(a, f)
	}
	if c.Last != 0 {
		a = append(a, fmt.Sprintf("--last=%d", c.Last))
	}
	if c.Val != "-" && c.Val != "" {
		a = append(a, "--val", c.Val)
	}
	if c.ShowCom {
		a = append(a, "-c")
	}
	if c.ShowDesc {
		a = append(a, "-d")
	}
	if c.ShowSrc {
		a = append(a, "-a")
	}
	if c.Alpha {
		a = append(a, "-s")
	}
	for _, m := range c.Map {
		a = append(a, "-m", m)
	}
	for _, m := range c.Remap {
		a = append(a, "--remap", m)
	}
	for _, m := range c.Src {
		a = append(a, "--source", m)
	}
	for _, m := range c.Dst {
		a = append(a, "--dest", m)
	}
	for _, m := range c.Com {
		a = append(a, "--commodity", m)
	}
	a = append(a, fmt.Sprintf("--digits=%d", c.Digits))
	if c.Thousands {
		a = append(a, "-k")
	}
	return a
}

// input: "<runs> <lseed> # <paths> # <fileOf> # <cfg> | <journal>" (paths and fileOf as in C06.order: the path under
// which knut knows each file and the file of each directive; the model gets the directives in (path, position) order,
// the order in which the current code's Build() leaves them whatever the arrival order, Properties/C06.v C06_arrival);
// paths "-" = the journal is written to one file
// observed: "<runs=same | diff ...> | <OK stdout | ERR | PANIC ...>" (the first run)
func obsC06Reg(in string) string {
	head, jS := splitInput(in)
	hp := strings.SplitN(head, " # ", 4)
	if len(hp) != 4 {
		return "bad input | -"
	}
	var runs int
	var lseed uint64
	fmt.Sscanf(hp[0], "%d %d", &runs, &lseed)
	cfg := DecodeRegCfg(hp[3])
	j := DecodeJournal(jS)
	var out string
	withTempDir(func(dir string) {
		var root string
		if hp[1] == "-" {
			// hand-written cases (corpus): one file
			root = writeFile(dir, "journal.knut", j.Text())
		} else {
			r := newRng(lseed, "C06layout", 0)
			l := genLayout(r, len(j), 4)
			if p, o := layoutTags(l); p != hp[1] || o != hp[2] {
				out = "layout mismatch | -"
				return
			}
			root = writeLayout(dir, j, l, r)
		}
		args := append(cfg.Args(), root)
		var first runResult
		verdict := "runs=same"
		for i := 0; i < runs; i++ {
			env := []string{fmt.Sprintf("KNUT_VERIF_SCHED=%d", lseed*131+uint64(i)), fmt.Sprintf("GOMAXPROCS=%d", []int{1, 2, 16}[i%3])}
			x := runKnut(knutBin(), dir, env, 20*time.Second, args...)
			if i == 0 {
				first = x
				continue
			}
			if x.class() != first.class() || x.Stdout != first.Stdout {
				verdict = fmt.Sprintf("diff run=%d class %s/%s %s", i, first.class(), x.class(), esc(firstDiff(first.Stdout, x.Stdout)))
				break
			}
		}
		// the case file is read as UTF-8: a table with a character cut in two (a change to the desc[:100] cut) must
		// arrive as a disagreement with the model, not break the reader
		out = strings.ToValidUTF8(verdict+" | "+renderRun(first), "\\xNN")
	})
	return out
}

// a description longer than 100 bytes whose 100th byte ends a character (the renderer cuts
// desc[:100] on bytes; a cut inside a multi-byte character is outside the model, Model/Table.v
// counts runes of valid UTF-8 only)
func longDesc(r *rng) string {
	words := []string{"Miete", "für", "März", "Zürich", "rent", "payment", "of", "the", "flat", "№7", "and", "a", "long", "explanation", "€", "x"}
	var b strings.Builder
	for b.Len() < 100+r.intn(60) {
		if b.Len() > 0 {
			b.WriteByte(' ')
		}
		b.WriteString(pick(r, words))
	}
	s := b.String()
	for len(s) > 100 && (s[100]&0xC0) == 0x80 {
		s = "x" + s
	}
	return s
}

func genRegCfg(r *rng, j Journal, o genOpts, valued bool) RegCfg {
	c := RegCfg{From: "-", To: dateStr(o.startDate.AddDate(0, 0, o.days+r.rangeInt(-3, 20))), Interval: "once", Val: "-"}
	if r.chance(40) {
		c.From = dateStr(o.startDate.AddDate(0, 0, r.rangeInt(-5, o.days/2)))
	}
	c.Interval = pick(r, []string{"once", "once", "daily", "weekly", "monthly", "monthly", "quarterly", "yearly"})
	if r.chance(25) {
		c.Last = pick(r, []int{1, 2, 3})
	}
	if valued {
		c.Val = pick(r, []string{"CHF", "CHF", "USD"})
	}
	c.ShowCom = r.chance(50)
	c.ShowDesc = r.chance(55)
	c.ShowSrc = r.chance(55)
	c.Alpha = r.chance(20)
	accs := journalAccounts(j)
	if r.chance(35) {
		n := 1 + r.intn(2)
		for i := 0; i < n; i++ {
			m := fmt.Sprintf("%d", r.rangeInt(1, 3))
			if r.chance(25) {
				m += fmt.Sprintf(":%d", r.rangeInt(0, 2))
			}
			c.Map = append(c.Map, m+","+rxFor(r, accs))
		}
	}
	if r.chance(5) {
		// a level-0 rule: the Dest accounts it matches are hidden (nil)
		c.Map = append([]string{"0," + rxFor(r, accs)}, c.Map...)
	}
	if r.chance(25) {
		c.Remap = []string{rxFor(r, accs)}
	}
	if r.chance(20) {
		c.Src = []string{rxFor(r, accs)}
	}
	if r.chance(20) {
		c.Dst = []string{rxFor(r, accs)}
	}
	if r.chance(15) {
		c.Com = []string{pick(r, o.commodities)}
	}
	c.Digits = pick(r, []int{0, 0, 1, 2, 4})
	c.Thousands = r.chance(20)
	return c
}

func genC06Reg(out *caseWriter, seed uint64, n int, args []string) error {
	var items []caseIn
	for i := 0; i < n; i++ {
		r := newRng(seed, "C06reg", i)
		o := defaultOpts(r)
		if r.chance(70) {
			// few days, many transactions: several postings per (date, Dest, Commodity)
			o.days = r.rangeInt(1, 8)
			o.nTxn = r.rangeInt(4, 18)
		}
		valued := r.chance(45)
		if r.chance(80) {
			// the copies added below change positions: no assertions or closings that they would break
			o.assertions, o.closes = false, false
		}
		j := genJournal(r, o)
		// more ties: copies of transactions with another description and/or another source account, same day
		var ts []int
		for k, d := range j {
			if d.Kind == 'T' && d.Accrual == nil {
				ts = append(ts, k)
			}
		}
		accs := journalAccounts(j)
		for k := 0; k < 4 && len(ts) > 0; k++ {
			d := j[pick(r, ts)]
			d.Bookings = append([]Booking{}, d.Bookings...)
			switch r.intn(3) {
			case 0:
				d.Desc = d.Desc + " (2)"
			case 1:
				b := d.Bookings[0]
				b.Credit = pick(r, accs)
				if b.Credit == b.Debit {
					continue
				}
				d.Bookings[0] = b
			default:
			}
			j = append(j, d)
		}
		for k := range j {
			if j[k].Kind == 'T' && r.chance(8) {
				j[k].Desc = longDesc(r)
			}
		}
		cfg := genRegCfg(r, j, o, valued)
		lseed := r.next() % 1000000
		paths, of := layoutTags(genLayout(newRng(lseed, "C06layout", 0), len(j), 4))
		in := fmt.Sprintf("%d %d # %s # %s # %s | %s", 6, lseed, paths, of, cfg.Enc(), j.Enc())
		items = append(items, caseIn{fmt.Sprintf("C06reg-%d-%d", seed, i), "C06.reg", in})
	}
	out.addBatch(items)
	return nil
}
