package main

import (
	"bytes"
	"encoding/hex"
	"fmt"
	"strconv"
	"strings"
	"unicode"
	"unicode/utf8"

	"github.com/sboehler/knut/lib/syntax/directives"
	"github.com/sboehler/knut/lib/syntax/parser"
)

// C07: the parser is total on all byte strings and returns a tree of ranges or an error chain.

func init() {
	observers["C07.parse"] = obsC07Parse
	observers["C07.cls"] = obsC07Cls
	gens["C07"] = genC07
	gens["C07short"] = genC07Short
	gens["C07cls"] = genC07Cls
}

// ------------------------------------------------------------------ observers

// input: the text as lowercase hex.  Output: the rendered tree "(F ...)", the rendered error
// chain "ERR (code s e @line:col)..." (line:col = Range.Location() of the error), or "PANIC:<msg>".
func obsC07Parse(in string) (res string) {
	defer func() {
		if r := recover(); r != nil {
			msg := fmt.Sprint(r)
			msg = strings.NewReplacer("\t", " ", "\n", " ", "\r", " ").Replace(msg)
			res = "PANIC:" + msg
		}
	}()
	raw, err := hex.DecodeString(in)
	if err != nil {
		return "BADINPUT"
	}
	text := string(raw)
	p := parser.New(text, "f.knut")
	if err := p.Advance(); err != nil {
		return c07RenderErr(err)
	}
	f, err := p.ParseFile()
	if err != nil {
		return c07RenderErr(err)
	}
	var sb strings.Builder
	c07File(&sb, f)
	return sb.String()
}

func c07RenderErr(err error) string {
	var sb strings.Builder
	sb.WriteString("ERR")
	for err != nil {
		e, ok := err.(directives.Error)
		if !ok {
			sb.WriteString(" (other 0 0 @1:1)")
			break
		}
		// the RENDERED position: line:col of Range.Location(), what Error() prints after the path
		loc := e.Range.Location()
		fmt.Fprintf(&sb, " (%s %d %d @%d:%d)", c07Code(e.Message), e.Start, e.End, loc.Line, loc.Col)
		// exercise the rendering code of the error; a panic here is an observation
		_ = e.Error()
		_ = e.Range.Context(1)
		_ = e.Range.Extract()
		if loc.Line < 1 || loc.Col < 1 {
			return "PANIC:bad location"
		}
		err = e.Wrapped
	}
	return sb.String()
}

var c07Descs = []struct{ desc, code string }{
	{"reading comment", "comment"},
	{"parsing directive", "dir"},
	{"parsing `include` statement", "incl"},
	{"parsing `open` directive", "open"},
	{"parsing `close` directive", "close"},
	{"parsing `balance` directive", "bal"},
	{"parsing balance subdirective", "balsub"},
	{"parsing commodity", "comm"},
	{"parsing decimal", "dec"},
	{"parsing account", "acc"},
	{"parsing booking", "book"},
	{"parsing the date", "date"},
	{"parsing quoted string", "qs"},
	{"parsing transaction", "trx"},
	{"parsing addons", "addons"},
	{"parsing performance", "perf"},
	{"parsing interval", "interval"},
	{"reading the rest of the line", "rest"},
}

func c07Code(m string) string {
	switch {
	case m == "":
		return "empty"
	case m == "unexpected end of file":
		return "eof"
	case m == "invalid unicode character":
		return "utf8"
	case m == "reading next character":
		return "next"
	case strings.HasPrefix(m, "unexpected end of file, want "):
		return "eofwant"
	case strings.HasPrefix(m, "unexpected character `"):
		return "char"
	case strings.HasPrefix(m, "while reading \""):
		return "str"
	case strings.HasPrefix(m, "unexpected input, want one of "):
		return "alt"
	case len(m) > len("while reading ") && strings.HasPrefix(m, "while reading ") && m[len("while reading ")] >= '0' && m[len("while reading ")] <= '9':
		return "readn"
	case m == "duplicate performance annotation" || m == "duplicate accrue annotation":
		return "dup"
	case strings.HasPrefix(m, "while "):
		desc := m[len("while "):]
		if desc == "" {
			return "w:"
		}
		if strings.HasPrefix(desc, "parsing file `") {
			return "w:file"
		}
		for _, d := range c07Descs {
			if desc == d.desc {
				return "w:" + d.code
			}
		}
		return "w:?"
	}
	return "?"
}

// c07Open writes "(tag s e" and extracts the range (a malformed range panics -> PANIC observation).
func c07Open(sb *strings.Builder, tag string, r directives.Range) {
	_ = r.Extract()
	sb.WriteByte('(')
	sb.WriteString(tag)
	sb.WriteByte(' ')
	sb.WriteString(strconv.Itoa(r.Start))
	sb.WriteByte(' ')
	sb.WriteString(strconv.Itoa(r.End))
}

func c07Leaf(sb *strings.Builder, tag string, r directives.Range) {
	sb.WriteByte(' ')
	c07Open(sb, tag, r)
	sb.WriteByte(')')
}

func c07Acc(sb *strings.Builder, a directives.Account) {
	sb.WriteByte(' ')
	c07Open(sb, "a", a.Range)
	if a.Macro {
		sb.WriteString(" 1)")
	} else {
		sb.WriteString(" 0)")
	}
}

func c07QS(sb *strings.Builder, q directives.QuotedString) {
	sb.WriteByte(' ')
	c07Open(sb, "q", q.Range)
	c07Leaf(sb, "c", q.Content)
	sb.WriteByte(')')
}

func c07Addons(sb *strings.Builder, a directives.Addons) {
	sb.WriteByte(' ')
	c07Open(sb, "ad", a.Range)
	sb.WriteByte(' ')
	c07Open(sb, "pf", a.Performance.Range)
	for _, t := range a.Performance.Targets {
		c07Leaf(sb, "cm", t.Range)
	}
	sb.WriteByte(')')
	sb.WriteByte(' ')
	c07Open(sb, "ac", a.Accrual.Range)
	c07Leaf(sb, "iv", a.Accrual.Interval.Range)
	c07Leaf(sb, "dt", a.Accrual.Start.Range)
	c07Leaf(sb, "dt", a.Accrual.End.Range)
	c07Acc(sb, a.Accrual.Account)
	sb.WriteByte(')')
	sb.WriteByte(')')
}

func c07File(sb *strings.Builder, f directives.File) {
	c07Open(sb, "F", f.Range)
	for _, d := range f.Directives {
		sb.WriteByte(' ')
		c07Open(sb, "D", d.Range)
		sb.WriteByte(' ')
		switch t := d.Directive.(type) {
		case directives.Transaction:
			c07Open(sb, "T", t.Range)
			c07Leaf(sb, "dt", t.Date.Range)
			c07QS(sb, t.Description)
			c07Addons(sb, t.Addons)
			for _, b := range t.Bookings {
				sb.WriteByte(' ')
				c07Open(sb, "b", b.Range)
				c07Acc(sb, b.Credit)
				c07Acc(sb, b.Debit)
				c07Leaf(sb, "n", b.Quantity.Range)
				c07Leaf(sb, "cm", b.Commodity.Range)
				sb.WriteByte(')')
			}
			sb.WriteByte(')')
		case directives.Open:
			c07Open(sb, "O", t.Range)
			c07Leaf(sb, "dt", t.Date.Range)
			c07Acc(sb, t.Account)
			sb.WriteByte(')')
		case directives.Close:
			c07Open(sb, "C", t.Range)
			c07Leaf(sb, "dt", t.Date.Range)
			c07Acc(sb, t.Account)
			sb.WriteByte(')')
		case directives.Assertion:
			c07Open(sb, "A", t.Range)
			c07Leaf(sb, "dt", t.Date.Range)
			for _, b := range t.Balances {
				sb.WriteByte(' ')
				c07Open(sb, "bl", b.Range)
				c07Acc(sb, b.Account)
				c07Leaf(sb, "n", b.Quantity.Range)
				c07Leaf(sb, "cm", b.Commodity.Range)
				sb.WriteByte(')')
			}
			sb.WriteByte(')')
		case directives.Price:
			c07Open(sb, "P", t.Range)
			c07Leaf(sb, "dt", t.Date.Range)
			c07Leaf(sb, "cm", t.Commodity.Range)
			c07Leaf(sb, "n", t.Price.Range)
			c07Leaf(sb, "cm", t.Target.Range)
			sb.WriteByte(')')
		case directives.Include:
			c07Open(sb, "I", t.Range)
			c07QS(sb, t.IncludePath)
			sb.WriteByte(')')
		default:
			sb.WriteString("(X)")
		}
		sb.WriteByte(')')
	}
	sb.WriteByte(')')
}

// input "<lo> <hi>": one char per rune in [lo, hi]: L letter, D digit, - neither
func obsC07Cls(in string) string {
	f := strings.Fields(in)
	if len(f) != 2 {
		return "BADINPUT"
	}
	lo, err1 := strconv.Atoi(f[0])
	hi, err2 := strconv.Atoi(f[1])
	if err1 != nil || err2 != nil || lo > hi || hi-lo > 4096 {
		return "BADINPUT"
	}
	out := make([]byte, 0, hi-lo+1)
	for c := lo; c <= hi; c++ {
		r := rune(c)
		switch {
		case unicode.IsLetter(r):
			out = append(out, 'L')
		case unicode.IsDigit(r):
			out = append(out, 'D')
		default:
			out = append(out, '-')
		}
	}
	return string(out)
}

// ------------------------------------------------------------------ small generators

func genC07Cls(out *caseWriter, _ uint64, _ int, _ []string) error {
	for lo := 0; lo <= 0x10FFFF; lo += 2048 {
		hi := lo + 2047
		if hi > 0x10FFFF {
			hi = 0x10FFFF
		}
		out.add(fmt.Sprintf("C07cls-%d", lo), "C07.cls", fmt.Sprintf("%d %d", lo, hi))
	}
	out.add("C07cls-1114112", "C07.cls", "1114112 1114200")
	return nil
}

var c07Alphabet = []byte{'2', 'a', ' ', '\n', '\r', '*', '/', '#', '"', '@', 'i', 0xff}

var c07Prefixes = []string{
	"2020-01-01 ",
	"2020-01-01 open A",
	"2020-01-01 \"x\"\nA B 1 C",
	"@performance(",
	"2020-01-01 balance\n",
	"include \"",
	"// ",
}

// c07Enum calls f on every string of length 0..maxLen over the relevant alphabet (by length, then
// lexicographically in alphabet order).
func c07Enum(maxLen int, f func(s []byte)) {
	for l := 0; l <= maxLen; l++ {
		idx := make([]int, l)
		buf := make([]byte, l)
		for {
			for k := 0; k < l; k++ {
				buf[k] = c07Alphabet[idx[k]]
			}
			f(buf)
			k := l - 1
			for k >= 0 {
				idx[k]++
				if idx[k] < len(c07Alphabet) {
					break
				}
				idx[k] = 0
				k--
			}
			if k < 0 {
				break
			}
		}
	}
}

func genC07Short(out *caseWriter, _ uint64, _ int, args []string) error {
	L := 4
	if len(args) > 0 {
		v, err := strconv.Atoi(args[0])
		if err != nil || v < 0 || v > 6 {
			return fmt.Errorf("C07short: bad length %q", args[0])
		}
		L = v
	}
	i := 0
	c07Enum(L, func(s []byte) {
		out.add(fmt.Sprintf("C07s-%d-%d", L, i), "C07.parse", hex.EncodeToString(s))
		i++
	})
	for k, p := range c07Prefixes {
		j := 0
		c07Enum(2, func(s []byte) {
			out.add(fmt.Sprintf("C07p-%d-%d", k, j), "C07.parse", hex.EncodeToString(append([]byte(p), s...)))
			j++
		})
	}
	return nil
}

// ------------------------------------------------------------------ journal generator

const (
	c07SiteNone = iota
	c07SiteComment
	c07SiteDesc
	c07SiteAcc
	c07SiteComm
	c07SiteNum
	c07SiteWs
	c07SiteBetween
	c07SiteEnd
	c07SitePath
)

type c07g struct {
	r       *rng
	b       []byte
	nlMode  int  // 0 LF, 1 CRLF, 2 mixed
	crWs    bool // \r may appear inside separators
	sloppy  bool // directives may directly follow a transaction / multi-line assertion
	needSep bool

	hookSite  int
	hookFn    func(tok string) string
	hookDone  bool
	hookForce bool
}

func (g *c07g) hooked(site int, s string) string {
	if g.hookFn == nil || g.hookDone || g.hookSite != site {
		return s
	}
	if !g.hookForce && !g.r.chance(35) {
		return s
	}
	g.hookDone = true
	return g.hookFn(s)
}

func (g *c07g) put(s string) { g.b = append(g.b, s...) }

func (g *c07g) ws() string {
	n := 1
	if g.r.chance(50) {
		n = g.r.rangeInt(1, 4)
	}
	var sb strings.Builder
	for i := 0; i < n; i++ {
		switch {
		case g.crWs && g.r.chance(15):
			sb.WriteByte('\r')
		case g.r.chance(20):
			sb.WriteByte('\t')
		default:
			sb.WriteByte(' ')
		}
	}
	return g.hooked(c07SiteWs, sb.String())
}

func (g *c07g) nl() string {
	switch g.nlMode {
	case 0:
		return "\n"
	case 1:
		return "\r\n"
	}
	if g.r.chance(50) {
		return "\r\n"
	}
	return "\n"
}

// eol: optional trailing whitespace and the line ending
func (g *c07g) eol() string {
	s := ""
	if g.r.chance(20) {
		n := g.r.rangeInt(1, 3)
		for i := 0; i < n; i++ {
			s += pick(g.r, []string{" ", " ", "\t"})
		}
	}
	return s + g.nl()
}

var c07BadDates = []string{"9999-99-99", "0000-00-00", "2020-13-45", "2021-02-30", "1900-02-29", "２０２０-０１-０１", "٢٠٢٠-٠١-٠١", "2020-00-00"}

func (g *c07g) date() string {
	r := g.r
	if r.chance(7) {
		return pick(r, c07BadDates)
	}
	y := r.rangeInt(1990, 2035)
	if r.chance(5) {
		y = r.rangeInt(0, 9999)
	}
	return fmt.Sprintf("%04d-%02d-%02d", y, r.rangeInt(1, 12), r.rangeInt(1, 31))
}

var c07Segments = []string{"Aktiven", "Überweisung", "資産", "Δx", "Konto1", "9lives", "Assets", "Expenses", "Bank",
	"A", "B", "x", "Equity", "Income", "Portfolio", "1", "2020", "été", "ß", "٣", "Ｘ５", "open", "i", "include"}

var c07AlnumRunes = []rune("abcdefghijklmnopqrstuvwxyzABCDEFGHIJKLMNOPQRSTUVWXYZ0123456789äöüÄÖÜßéΔж資産日本٣５")
var c07LetterRunes = []rune("abcdefghijklmnopqrstuvwxyzABCDEFGHIJKLMNOPQRSTUVWXYZäöüÄÖÜßéΔж資産日本")

func (g *c07g) randWord(alpha []rune, lo, hi int) string {
	n := g.r.rangeInt(lo, hi)
	rs := make([]rune, n)
	for i := range rs {
		rs[i] = pick(g.r, alpha)
	}
	return string(rs)
}

func (g *c07g) segment() string {
	if g.r.chance(75) {
		return pick(g.r, c07Segments)
	}
	return g.randWord(c07AlnumRunes, 1, 8)
}

func (g *c07g) account() string {
	r := g.r
	var s string
	if r.chance(10) {
		if r.chance(60) {
			s = "$" + pick(r, []string{"foo", "dividend", "Ünï", "x", "資産", "macro"})
		} else {
			s = "$" + g.randWord(c07LetterRunes, 1, 8)
		}
	} else {
		n := pick(r, []int{1, 2, 2, 2, 3, 3, 4})
		parts := make([]string, n)
		for i := range parts {
			parts[i] = g.segment()
		}
		s = strings.Join(parts, ":")
	}
	return g.hooked(c07SiteAcc, s)
}

var c07Commodities = []string{"CHF", "USD", "AAPL", "X1", "Ünit", "日本", "EUR", "C", "1", "x", "٣"}

func (g *c07g) commodity() string {
	s := ""
	if g.r.chance(80) {
		s = pick(g.r, c07Commodities)
	} else {
		s = g.randWord(c07AlnumRunes, 1, 6)
	}
	return g.hooked(c07SiteComm, s)
}

func (g *c07g) digits(lo, hi int) string {
	n := g.r.rangeInt(lo, hi)
	bs := make([]byte, n)
	for i := range bs {
		bs[i] = byte('0' + g.r.intn(10))
	}
	s := string(bs)
	if g.r.chance(1) {
		s += pick(g.r, []string{"٣", "５", "०"})
	}
	return s
}

func (g *c07g) decimal() string {
	r := g.r
	s := ""
	if r.chance(25) {
		s = "-"
	}
	if r.chance(5) {
		s += g.digits(20, 60)
	} else {
		s += g.digits(1, 6)
	}
	if r.chance(50) {
		if r.chance(5) {
			s += "." + g.digits(20, 60)
		} else {
			s += "." + g.digits(1, 4)
		}
	}
	return g.hooked(c07SiteNum, s)
}

var c07TextFrags = []string{"Salary", "Rent January", "Zürich 東京 €", "\t", "  ", "'", "\\", "é", "@performance(", "2020-01-01 open A",
	"*", "//", "#", ":", "$", "-1.5", "😀", "Groceries", "include", "a,b;c", "(x)", "100%", "�", "naïve café", "x", " ", " "}
var c07DescOnly = []string{"\n", "line1\nline2", "\r\n", "\n\n", "\nA B 1 C\n"}
var c07CommentOnly = []string{"\"", "\"quoted\"", "\r"}

func (g *c07g) text(extra []string, maxFrags int) string {
	r := g.r
	n := r.rangeInt(0, maxFrags)
	var sb strings.Builder
	for i := 0; i < n; i++ {
		if len(extra) > 0 && r.chance(15) {
			sb.WriteString(pick(r, extra))
		} else {
			sb.WriteString(pick(r, c07TextFrags))
		}
		if r.chance(60) {
			sb.WriteByte(' ')
		}
	}
	return sb.String()
}

func (g *c07g) descr() string {
	s := ""
	if !g.r.chance(10) {
		s = g.text(c07DescOnly, 5)
	}
	return g.hooked(c07SiteDesc, s)
}

var c07Paths = []string{"a/b.knut", "../x y/ü.knut", "", "USD.prices", "/abs/path", "with\nnewline", "AAPL.prices", "foo/foo.knut", "\t"}

// sep is called before every item that is not a blank or whitespace-only line
func (g *c07g) sep() {
	if g.needSep {
		if !(g.sloppy && g.r.chance(40)) {
			if g.r.chance(70) {
				g.put(g.nl())
			} else {
				g.wsLine()
			}
		}
		g.needSep = false
	}
	g.put(g.hooked(c07SiteBetween, ""))
}

func (g *c07g) wsLine() {
	n := g.r.rangeInt(1, 5)
	for i := 0; i < n; i++ {
		g.put(pick(g.r, []string{" ", " ", "\t", "\r"}))
	}
	g.put(g.nl())
}

func (g *c07g) comment() {
	g.sep()
	s := pick(g.r, []string{"*", "*", "#", "//"})
	if g.r.chance(70) {
		s += " "
	}
	body := g.hooked(c07SiteComment, g.text(c07CommentOnly, 6))
	g.put(s + body + g.nl())
}

func (g *c07g) perfLine() string {
	r := g.r
	sp := func() string {
		if r.chance(60) {
			return ""
		}
		return pick(r, []string{" ", "  ", "\t", " \t "})
	}
	s := "@performance(" + sp()
	n := pick(r, []int{0, 1, 1, 1, 2, 2, 3})
	for i := 0; i < n; i++ {
		if i > 0 {
			s += "," + sp()
		}
		s += g.commodity() + sp()
	}
	return s + ")" + g.eol()
}

func (g *c07g) accrueLine() string {
	iv := pick(g.r, []string{"daily", "weekly", "monthly", "quarterly"})
	return "@accrue" + g.ws() + iv + g.ws() + g.date() + g.ws() + g.date() + g.ws() + g.account() + g.eol()
}

func (g *c07g) addons() string {
	switch g.r.intn(5) {
	case 0, 1:
		return g.perfLine()
	case 2:
		return g.accrueLine()
	case 3:
		return g.perfLine() + g.accrueLine()
	}
	return g.accrueLine() + g.perfLine()
}

func (g *c07g) balanceLine() string {
	return g.account() + g.ws() + g.decimal() + g.ws() + g.commodity()
}

func (g *c07g) trx(addonPct int) {
	g.sep()
	if g.r.chance(addonPct) {
		g.put(g.addons())
	}
	g.put(g.date() + g.ws() + "\"" + g.descr() + "\"" + g.eol())
	n := pick(g.r, []int{1, 1, 1, 2, 2, 2, 3, 4, 5})
	for i := 0; i < n; i++ {
		g.put(g.account() + g.ws() + g.account() + g.ws() + g.decimal() + g.ws() + g.commodity() + g.eol())
	}
	g.needSep = true
}

func (g *c07g) item() {
	r := g.r
	k := r.intn(100)
	switch {
	case k < 7:
		n := 1
		if r.chance(25) {
			n = r.rangeInt(2, 4)
		}
		for i := 0; i < n; i++ {
			g.put(g.nl())
		}
		g.needSep = false
	case k < 11:
		g.wsLine()
		g.needSep = false
	case k < 22:
		g.comment()
	case k < 29:
		g.sep()
		if r.chance(4) {
			g.put(g.addons())
		}
		g.put("include" + g.ws() + "\"" + g.hooked(c07SitePath, pick(r, c07Paths)) + "\"" + g.eol())
	case k < 42:
		g.sep()
		if r.chance(4) {
			g.put(g.addons())
		}
		g.put(g.date() + g.ws() + "open" + g.ws() + g.account() + g.eol())
	case k < 50:
		g.sep()
		g.put(g.date() + g.ws() + "close" + g.ws() + g.account() + g.eol())
	case k < 59:
		g.sep()
		g.put(g.date() + g.ws() + "price" + g.ws() + g.commodity() + g.ws() + g.decimal() + g.ws() + g.commodity() + g.eol())
	case k < 67:
		g.sep()
		g.put(g.date() + g.ws() + "balance" + g.ws() + g.balanceLine() + g.eol())
	case k < 75:
		g.sep()
		g.put(g.date() + g.ws() + "balance" + g.eol())
		n := pick(r, []int{1, 2, 2, 3, 5})
		for i := 0; i < n; i++ {
			g.put(g.balanceLine() + g.eol())
		}
		g.needSep = true
	default:
		g.trx(35)
	}
}

// forceHook emits an item that certainly contains the hook site
func (g *c07g) forceHook() {
	if g.hookFn == nil || g.hookDone {
		return
	}
	g.hookForce = true
	switch g.hookSite {
	case c07SiteComment:
		g.comment()
	case c07SitePath:
		g.sep()
		g.put("include" + g.ws() + "\"" + g.hooked(c07SitePath, pick(g.r, c07Paths)) + "\"" + g.eol())
	case c07SiteEnd:
	default:
		g.trx(0)
	}
	g.hookForce = false
}

func newC07g(r *rng) *c07g {
	g := &c07g{r: r}
	g.nlMode = pick(r, []int{0, 0, 0, 0, 1, 1, 2, 2})
	g.crWs = r.chance(10)
	g.sloppy = r.chance(6)
	return g
}

func (g *c07g) journal(mult int) []byte {
	r := g.r
	var n int
	switch k := r.intn(100); {
	case k < 4:
		n = r.rangeInt(0, 1)
	case k < 92:
		n = r.rangeInt(2, 12*mult)
	default:
		n = r.rangeInt(13, 60*mult)
	}
	hookAt := -1
	if g.hookFn != nil {
		hookAt = r.intn(n + 1)
	}
	for i := 0; i < n; i++ {
		if i == hookAt && r.chance(50) {
			g.forceHook()
		}
		g.item()
		if len(g.b) > 60000 {
			break
		}
	}
	g.forceHook()
	// the last line with or without final newline
	if r.chance(30) && len(g.b) > 0 && g.b[len(g.b)-1] == '\n' {
		g.b = g.b[:len(g.b)-1]
		if len(g.b) > 0 && g.b[len(g.b)-1] == '\r' && r.chance(50) {
			g.b = g.b[:len(g.b)-1]
		}
	}
	if g.hookFn != nil && g.hookSite == c07SiteEnd {
		g.hookDone = true
		g.put(g.hookFn(""))
	}
	return g.b
}

// ------------------------------------------------------------------ mutations

var c07Keywords = []string{"open", "close", "balance", "price", "include", "@performance", "@accrue", "daily", "weekly", "monthly", "quarterly"}

var c07BadUTF8 = []string{"\x80", "\xff", "\xc3", "\xe2\x82", "\xc0\xaf", "\xed\xa0\x80", "\xef\xbf\xbd", "\xf0\x9f\x98", "\xf4\x90\x80\x80", "\xfe", "\xbf", "\xe0\x80\x80"}

func c07Insert(b []byte, pos int, s []byte) []byte {
	out := make([]byte, 0, len(b)+len(s))
	out = append(out, b[:pos]...)
	out = append(out, s...)
	return append(out, b[pos:]...)
}

func c07Delete(b []byte, from, to int) []byte {
	out := make([]byte, 0, len(b))
	out = append(out, b[:from]...)
	return append(out, b[to:]...)
}

func c07Positions(b []byte, c byte) []int {
	var ps []int
	for i, x := range b {
		if x == c {
			ps = append(ps, i)
		}
	}
	return ps
}

func c07Mutate1(r *rng, b []byte) []byte {
	n := len(b)
	if n == 0 {
		return []byte{pick(r, c07Alphabet)}
	}
	switch k := r.intn(100); {
	case k < 7: // delete a byte
		p := r.intn(n)
		return c07Delete(b, p, p+1)
	case k < 13: // delete a span
		p := r.intn(n)
		q := p + r.rangeInt(1, 25)
		if q > n {
			q = n
		}
		return c07Delete(b, p, q)
	case k < 19: // insert any byte
		return c07Insert(b, r.intn(n+1), []byte{byte(r.intn(256))})
	case k < 27: // insert a relevant byte
		return c07Insert(b, r.intn(n+1), []byte{pick(r, c07Alphabet)})
	case k < 34: // replace a byte
		out := append([]byte(nil), b...)
		if r.chance(50) {
			out[r.intn(n)] = byte(r.intn(256))
		} else {
			out[r.intn(n)] = pick(r, []byte("2a \n\r*/#\"@i\xff-.:$(),\t0Z"))
		}
		return out
	case k < 37: // duplicate a line (addon lines preferred: duplicate annotations)
		lines := bytes.SplitAfter(b, []byte("\n"))
		i := r.intn(len(lines))
		var at []int
		for j, l := range lines {
			if len(l) > 0 && l[0] == '@' {
				at = append(at, j)
			}
		}
		if len(at) > 0 && r.chance(60) {
			i = pick(r, at)
		}
		out := make([]byte, 0, n+len(lines[i]))
		for j, l := range lines {
			out = append(out, l...)
			if j == i {
				out = append(out, l...)
			}
		}
		return out
	case k < 40: // duplicate a span
		p := r.intn(n)
		q := p + r.rangeInt(1, 30)
		if q > n {
			q = n
		}
		return c07Insert(b, r.intn(n+1), append([]byte(nil), b[p:q]...))
	case k < 45: // swap two adjacent lines
		lines := bytes.Split(b, []byte("\n"))
		if len(lines) < 2 {
			return b[:r.intn(n+1)]
		}
		i := r.intn(len(lines) - 1)
		lines[i], lines[i+1] = lines[i+1], lines[i]
		return bytes.Join(lines, []byte("\n"))
	case k < 63: // truncate
		if r.chance(35) && n > 12 { // near the end: truncated last directive
			return append([]byte(nil), b[:n-r.rangeInt(1, 12)]...)
		}
		return append([]byte(nil), b[:r.intn(n+1)]...)
	case k < 68: // drop the newlines of a region
		p := r.intn(n)
		q := p + r.rangeInt(1, 80)
		if q > n {
			q = n
		}
		out := append([]byte(nil), b[:p]...)
		for _, c := range b[p:q] {
			if c != '\n' {
				out = append(out, c)
			}
		}
		return append(out, b[q:]...)
	case k < 72: // \n -> \r
		ps := c07Positions(b, '\n')
		if len(ps) == 0 {
			return c07Insert(b, r.intn(n+1), []byte{'\r'})
		}
		out := append([]byte(nil), b...)
		out[pick(r, ps)] = '\r'
		return out
	case k < 76: // NUL
		return c07Insert(b, r.intn(n+1), []byte{0})
	case k < 81: // invalid UTF-8
		return c07Insert(b, r.intn(n+1), []byte(pick(r, c07BadUTF8)))
	case k < 90: // keyword off by one char
		type occ struct {
			pos, l int
		}
		var occs []occ
		for _, kw := range c07Keywords {
			from := 0
			for {
				i := bytes.Index(b[from:], []byte(kw))
				if i < 0 {
					break
				}
				occs = append(occs, occ{from + i, len(kw)})
				from += i + 1
			}
		}
		if len(occs) == 0 {
			return c07Insert(b, r.intn(n+1), []byte(pick(r, c07Keywords)))
		}
		o := pick(r, occs)
		p := o.pos + r.intn(o.l)
		switch r.intn(3) {
		case 0:
			return c07Delete(b, p, p+1)
		case 1:
			return c07Insert(b, p, []byte{b[p]})
		}
		out := append([]byte(nil), b...)
		c := byte('a' + r.intn(26))
		if c == out[p] {
			c = 'A' + (c - 'a')
		}
		out[p] = c
		return out
	case k < 95: // remove a (closing) quote
		ps := c07Positions(b, '"')
		if len(ps) == 0 {
			return c07Insert(b, r.intn(n+1), []byte{'"'})
		}
		i := r.intn(len(ps))
		if i%2 == 0 && i+1 < len(ps) && r.chance(70) {
			i++
		}
		return c07Delete(b, ps[i], ps[i]+1)
	default: // remove a closing parenthesis
		ps := c07Positions(b, ')')
		if len(ps) == 0 {
			return c07Insert(b, r.intn(n+1), []byte{pick(r, []byte("()"))})
		}
		p := pick(r, ps)
		return c07Delete(b, p, p+1)
	}
}

func c07Mutate(r *rng, b []byte) []byte {
	n := pick(r, []int{1, 1, 1, 2, 2, 3, 4})
	for i := 0; i < n; i++ {
		b = c07Mutate1(r, b)
	}
	return b
}

// ------------------------------------------------------------------ other kinds

var c07Soup = []string{"2020-01-01", "open", "close", "balance", "price", "include", "\"x\"", "\"", "A:B", "A", "$m", "1", "-1.5", "CHF",
	"@performance", "(", ")", ",", "@accrue", "monthly", "\n", "\n", "\n", " ", "  ", "\t", "*", "#", "//", "\r\n", ":", ".", "-", "$", "Ü", "\xff"}

func c07Raw(r *rng) []byte {
	n := r.rangeInt(0, 200)
	if r.chance(40) {
		n = r.rangeInt(0, 20)
	}
	out := make([]byte, 0, n)
	switch r.intn(4) {
	case 0:
		for i := 0; i < n; i++ {
			out = append(out, byte(r.intn(256)))
		}
	case 1:
		for i := 0; i < n; i++ {
			out = append(out, pick(r, c07Alphabet))
		}
	case 2:
		for i := 0; i < n; i++ {
			if r.chance(8) {
				out = append(out, '\n')
			} else {
				out = append(out, byte(r.rangeInt(32, 126)))
			}
		}
	default:
		m := n / 4
		for i := 0; i < m; i++ {
			out = append(out, pick(r, c07Soup)...)
			if r.chance(50) {
				out = append(out, ' ')
			}
		}
	}
	return out
}

func c07LongFill(r *rng, frags []string, l int) string {
	var sb strings.Builder
	sb.Grow(l + 16)
	for sb.Len() < l {
		sb.WriteString(pick(r, frags))
	}
	return sb.String()
}

func c07Long(r *rng, mult int) []byte {
	g := newC07g(r)
	g.sloppy = false
	l := r.rangeInt(1000, 9000)
	if r.chance(10) {
		l = r.rangeInt(64000, 70000)
	}
	g.hookSite = pick(r, []int{c07SiteAcc, c07SiteAcc, c07SiteComm, c07SiteNum, c07SiteDesc, c07SiteComment, c07SiteWs})
	switch g.hookSite {
	case c07SiteAcc:
		if r.chance(50) {
			g.hookFn = func(string) string { return c07LongFill(r, []string{"Aktiven", "Ü", "資産", "x", "9", "Konto1"}, l) }
		} else {
			g.hookFn = func(string) string {
				return strings.TrimSuffix(c07LongFill(r, []string{"A:", "Bank:", "資産:", "1:", "Ünï:"}, l), ":")
			}
		}
	case c07SiteComm:
		g.hookFn = func(string) string { return c07LongFill(r, []string{"CHF", "X1", "Ü", "日本", "7"}, l) }
	case c07SiteNum:
		g.hookFn = func(string) string {
			s := c07LongFill(r, []string{"0", "1", "2", "3", "4", "5", "6", "7", "8", "9", "1234567890"}, l)
			if r.chance(50) {
				p := r.rangeInt(1, len(s)-1)
				s = s[:p] + "." + s[p:]
			}
			if r.chance(30) {
				s = "-" + s
			}
			return s
		}
	case c07SiteDesc:
		g.hookFn = func(string) string {
			return c07LongFill(r, []string{"Salary ", "Zürich 東京 € ", "\n", "\t", "x", "2020-01-01 open A\n", "😀"}, l)
		}
	case c07SiteComment:
		g.hookFn = func(string) string {
			return c07LongFill(r, []string{"Salary ", "Zürich 東京 € ", "\"", "\t", "x", "😀", "* "}, l)
		}
	case c07SiteWs:
		g.hookFn = func(string) string { return c07LongFill(r, []string{" ", " ", "\t", "    ", "\r"}, l) }
	}
	return g.journal(mult)
}

func c07BadJournal(r *rng, mult int) []byte {
	g := newC07g(r)
	g.sloppy = false
	g.hookSite = pick(r, []int{c07SiteComment, c07SiteComment, c07SiteDesc, c07SiteDesc, c07SiteAcc, c07SiteAcc, c07SiteBetween, c07SiteEnd, c07SiteEnd, c07SiteComm, c07SitePath})
	bad := pick(r, c07BadUTF8)
	g.hookFn = func(tok string) string {
		p := r.intn(len(tok) + 1)
		return tok[:p] + bad + tok[p:]
	}
	return g.journal(mult)
}

var c07Tricky = []string{
	"", "\n", " ", "\r\n", "*", "/", "//", "#x", "/x", "* c",
	"2020-01-01", "2020-01-01 ", "2020-01-01 open", "2020-01-01 open A", "2020-01-01 open A:", "2020-01-01 open A:B",
	"2020-01-01 open A:B  \t\r\n", "2020-01-01 open A:B x", "2020-01-01 close $macro",
	"2020-01-01 price A 1.5 B", "2020-01-01 price A 1. B", "2020-01-01 price A -1 B ",
	"2020-01-01 balance A 1 B", "2020-01-01 balance\nA 1 B\nC:D -2.50 E\n", "2020-01-01 balance\n",
	"2020-01-01 \"x\"\nA B 1 C", "2020-01-01 \"x\"\nA B 1 C\n", "2020-01-01 \"x\"\nA B 1 C\n\n", "2020-01-01 \"x\"\nA B 1 C\n D E 1 F",
	"2020-01-01 \"x\"", "2020-01-01 \"x",
	"include \"a/b.knut\"", "include\"x\"", "i", "@", "@performance", "@performance()",
	"@performance(  )\n2020-01-01 \"x\"\nA B 1 C\n",
	"@performance(A,B , C)\n@accrue monthly 2020-01-01 2020-12-31 A:B\n2020-01-01 \"x\"\nA B 1 C\n",
	"@performance(A)\n@performance(B)\n",
	"@accrue daily 2020-01-01 2020-01-02 A\n@accrue daily 2020-01-01 2020-01-02 A\n",
	"@accrue yearly 2020-01-01 2020-01-02 A\n",
	"@performance(A)\n2020-01-01 open A\n", "@performance(A)\ninclude \"x\"\n", "@performance(A) x", "@performance(A)",
	"2020-01-01 open Ä:ß9\n", "２０２０-０１-０１ open A\n", "2020-01-01 open A\x00", "\x00", "\xff", "\xef\xbf\xbd",
	"# \xef\xbf\xbd\n", "# \xff\n", "2020-01-01 \"\xff\"\nA B 1 C\n", "* a\r\n* b\r\n",
	"2020-01-01 open A\r\n2020-01-02 close A\r\n", "\t \r\n\n  \n", "2020-01-01 open A\n x", "x", "1", "20200101 open A",
	// more
	"2020-01-01 open $", "2020-01-01 open $1", "2020-01-01 open $a1", "2020-01-01 open A::B", "2020-01-01 open :A",
	"2020-01-01\nopen A", "2020-01-01\topen\tA", "2020-01-01 open\nA", "2020-01-01 openA", "2020-01-01 opening A",
	"2020-01-01 price A 1.5", "2020-01-01 price A .5 B", "2020-01-01 price A - B", "2020-01-01 price A --1 B", "2020-01-01 price A 1.5.2 B",
	"2020-01-01 price A 1.5 ", "2020-01-01 price A 1.5 B C", "2020-01-01 price\nA 1 B",
	"2020-01-01 balance\n\nA 1 B\n", "2020-01-01 balance\nA 1 B\n2020-01-02 open A\n", "2020-01-01 balance\nA 1 B\n\n2020-01-02 open A\n",
	"2020-01-01 balance\nA 1 B\n \n2020-01-02 open A\n", "2020-01-01 balance A 1 B\n2020-01-02 open A\n", "2020-01-01 balance \nA 1 B",
	"2020-01-01 \"x\"\n", "2020-01-01 \"x\"\n\nA B 1 C\n", "2020-01-01 \"x\" A B 1 C\n", "2020-01-01 \"x\"\nA B 1 C\n2020-01-02 open A\n",
	"2020-01-01 \"x\"\nA B 1 C\n* c\n", "2020-01-01 \"x\"\nA B 1 C\n\t\n2020-01-02 open A\n", "2020-01-01 \"\"\nA B 1 C",
	"2020-01-01 \"a\nb\"\nA B 1 C", "2020-01-01 \"x\"\nA  B\t1\rC\r", "2020-01-01 \"x\"\nA B 1\nC", "2020-01-01 \"x\"\nA B\n",
	"2020-01-01 \"x\"\n$a $b -0.0 0", "2020-01-01\"x\"\nA B 1 C",
	"include \"", "include \"x", "include x", "include", "include ", "include\n\"x\"", "incline \"foo\"", "include \"a\" \"b\"", "i2020",
	"@accrue", "@accrue ", "@accrue monthly", "@accrue monthly 2020-01-01", "@accrue monthly 2020-01-01 2020-12-31", "@accrue monthly 2020-01-01 2020-12-31 A",
	"@accrue monthly 2020-01-01 2020-12-31 A\n", "@accrue monthly 2020-01-01 2020-12-31 A\n\n2020-01-01 \"x\"\nA B 1 C\n",
	"@accruemonthly 2020-01-01 2020-12-31 A\n", "@accrue\nmonthly 2020-01-01 2020-12-31 A\n",
	"@performance(", "@performance(A", "@performance(A,", "@performance(A,)", "@performance(,A)", "@performance(A B)", "@performance (A)", "@performance(A))",
	"@performance(A)\n\n2020-01-01 \"x\"\nA B 1 C\n", "@performance(A)\n@", "@performance(A)\n@x", "@performance(\n)", "@perf", "@@",
	"@performance(A)\n@accrue daily 2020-01-01 2020-01-02 A\n@performance(B)\n",
	"@accrue daily 2020-01-01 2020-01-02 A\n@performance(A)\n2020-01-01 \"x\"\nA B 1 C",
	"@performance()\n2020-01-01 price A 1 B", "@performance()\n2020-01-01 balance\nA 1 B\n",
	"\r", "\r\r\n", "\n\n\n", " \n \n", " x", "\tx", "-", "--", ":", "$", "\"", "\"x\"", "(", ")", ",", ".",
	"*\n", "#\n", "//\n", "* a\n# b\n// c\n", "*\r", "/ /", "/*", "/\n/", "#\xff", "*\xc3", "//\xe2\x82", "* \xed\xa0\x80",
	"\xef\xbb\xbf2020-01-01 open A\n", "\xef\xbb\xbf", "2020-01-01 open A\xff", "2020-01-01 open \xffA", "2020-01-01 open A\xc3", "2020-01-01 open A\n\xff",
	"2020-01-01 open A\xef\xbf\xbd", "2020-01-01 open \xef\xbf\xbd", "2020-01-01 \"\xef\xbf\xbd\"\nA B 1 C", "2020-01-01 \"\xe2\x82",
	"2020-01-01 open A ", "2020-01-01 open A", "2020-01-01 open A ", "2020-01-01 open A\x0b", "2020-01-01 open A\x0c\n",
	"2020-1-01 open A", "202-01-01 open A", "2020-01-1 open A", "2020/01/01 open A", "2020-01-011 open A", "20205-31",
	"٢٠٢٠-٠١-٠١ open ٣\n", "2020-01-01 price ٣ ٣.٣ ٣\n", "2020-01-01 price A ½ B", "2020-01-01 open Ⅷ", "2020-01-01 open ａ", "2020-01-01 open á",
	"2020-01-01 open A\n2020-01-01 open A", "2020-01-01 open A\n\n", "2020-01-01 open A \n \n", "2020-01-01 open A\r", "2020-01-01 open A\r\r\n",
	"\x00\n", "a\x00b", "2020-01-01 \"\x00\"\nA B 1 C", "* \x00\n", "\U0010ffff", "* \U0010ffff\n", "\xf4\x8f\xbf\xbf", "\xf4\x90\x80\x80",
}

func c07TrickyCase(r *rng, mult int) []byte {
	s := pick(r, c07Tricky)
	switch k := r.intn(100); {
	case k < 65:
		return []byte(s)
	case k < 85: // after a valid journal
		g := newC07g(r)
		g.sloppy = false
		b := g.journal(mult)
		if len(b) > 0 && b[len(b)-1] != '\n' {
			b = append(b, '\n')
		}
		if g.needSep {
			b = append(b, '\n')
		}
		return append(b, s...)
	default: // two snippets
		return []byte(s + pick(r, []string{"", "\n", "\n\n", " "}) + pick(r, c07Tricky))
	}
}

// c07AfterMultibyte: a syntax error AFTER multi-byte characters on the same line, so that the
// column Range.Location() renders (runes since the last newline) differs from the byte distance
// to the start of the line; half of the time within the last runes of the line, where a byte
// distance would lie outside the line.
func c07AfterMultibyte(r *rng, mult int) []byte {
	g := newC07g(r)
	g.sloppy = false
	b := g.journal(mult)
	type span struct{ s, e, first int } // line [s,e), end of its first multi-byte character
	lines := func() []span {
		var out []span
		for s := 0; s <= len(b); {
			e := bytes.IndexByte(b[s:], '\n')
			if e < 0 {
				e = len(b)
			} else {
				e += s
			}
			l := b[s:e]
			comment := len(l) > 0 && (l[0] == '*' || l[0] == '#' || (len(l) > 1 && l[0] == '/' && l[1] == '/'))
			if !comment {
				for i := 0; i < len(l); {
					c, w := utf8.DecodeRune(l[i:])
					if w > 1 && c != utf8.RuneError {
						out = append(out, span{s, e, s + i + w})
						break
					}
					i += w
				}
			}
			s = e + 1
		}
		return out
	}
	cand := lines()
	if len(cand) == 0 {
		// no such line: put a letter of two to four bytes behind an ASCII letter outside comments
		var at []int
		for s := 0; s < len(b); {
			e := bytes.IndexByte(b[s:], '\n')
			if e < 0 {
				e = len(b)
			} else {
				e += s
			}
			l := b[s:e]
			if !(len(l) > 0 && (l[0] == '*' || l[0] == '#' || l[0] == '/')) {
				for i, c := range l {
					if (c >= 'a' && c <= 'z') || (c >= 'A' && c <= 'Z') {
						at = append(at, s+i+1)
					}
				}
			}
			s = e + 1
		}
		if len(at) == 0 {
			return []byte("2020-01-01 open Zürich:Café !\n")
		}
		b = c07Insert(b, pick(r, at), []byte(pick(r, []string{"ü", "é", "ß", "Ω", "漢", "𝔘", "ｚ"})))
		cand = lines()
		if len(cand) == 0 {
			return b
		}
	}
	l := pick(r, cand)
	// rune starts behind the first multi-byte character, and the end of the line
	var pos []int
	for i := l.first; i < l.e; {
		pos = append(pos, i)
		_, w := utf8.DecodeRune(b[i:l.e])
		i += w
	}
	pos = append(pos, l.e)
	var p int
	if r.chance(50) {
		k := len(pos) - 1 - r.intn(3)
		if k < 0 {
			k = 0
		}
		p = pos[k]
	} else {
		p = pick(r, pos)
	}
	switch k := r.intn(100); {
	case k < 60: // a stray token
		return c07Insert(b, p, []byte(pick(r, []string{"!", "€", "\"", " ;", "\t§", "😀", " x", "%", ":", "..", "\u00a0", "\r"})))
	case k < 75 && p < l.e: // drop the rest of the line
		return c07Delete(b, p, l.e)
	case k < 85: // cut the text here
		return append([]byte(nil), b[:p]...)
	default: // an invalid encoding: the parser stops at the byte
		return c07Insert(b, p, []byte(pick(r, c07BadUTF8)))
	}
}

func c07Text(r *rng, mult int) []byte {
	switch k := r.intn(100); {
	case k < 45:
		return newC07g(r).journal(mult)
	case k < 68:
		g := newC07g(r)
		g.sloppy = false
		return c07Mutate(r, g.journal(mult))
	case k < 75:
		return c07AfterMultibyte(r, mult)
	case k < 83:
		return c07Raw(r)
	case k < 90:
		return c07BadJournal(r, mult)
	case k < 95:
		return c07Long(r, mult)
	default:
		return c07TrickyCase(r, mult)
	}
}

func genC07(out *caseWriter, seed uint64, n int, args []string) error {
	mult := 1
	if len(args) > 0 {
		v, err := strconv.Atoi(args[0])
		if err != nil || v < 1 || v > 100 {
			return fmt.Errorf("C07: bad size multiplier %q", args[0])
		}
		mult = v
	}
	for i := 0; i < n; i++ {
		r := newRng(seed, "C07", i)
		text := c07Text(r, mult)
		if len(text) > 80000 {
			text = text[:80000]
		}
		out.add(fmt.Sprintf("C07-%d-%d", seed, i), "C07.parse", hex.EncodeToString(text))
	}
	return nil
}
