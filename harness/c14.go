package main

// C14 "commands fail cleanly on every input".
//
// op C14.run, input:   <cmd> # <flagspec> # <tree>
//   cmd       check | balance | print | format | infer | transcode | weights | returns
//   flagspec  "raw <hex> <hex> ..."   argv elements between the command words and the root file (hex, "-" = empty string)
//             "flg <hex> <hex> ..."   the same, in the flag family: the exit class is predicted from Model/Flags.v and
//                                     Model/CliFlags.v (the raw files of the tree are read with the model's parser)
//             "pred"                  no flags; the case lies inside the modelled space (check, print)
//             "bal <BalCfg.Enc()>"    balance flags of the modelled space (BalCfg.Args())
//             "tc val=<V or ->"       transcode [-v V]  (modelled space: Model/CliTranscode.v)
//             "pfw <PfCfg.Enc()>"     portfolio weights --csv, "pfwt ..." the text table  (PfCfg.weightsArgs, Model/CliPortfolio.v)
//             "pfr <PfCfg.Enc()>"     portfolio returns  (PfCfg.returnsArgs)
//   tree      entries "<kind>:<hex path>:<hex content>" separated by one space; the first entry is the root file
//             (the positional argument); kinds: F raw bytes, J structured journal (items separated by " ; ":
//             a Dir.Enc() or "I <hex include path>"), U unreadable (chmod 000; a directory when running as
//             root, where permissions are not enforced), D directory.  A missing file is simply not in the tree.
// observed:   class=OK|ERR|PANIC|HANG|OOM|EXIT<n> stdout_empty=0|1 stderr_nonempty=0|1
//
// The binary runs in the materialised tree (cwd, relative paths), under `ulimit -v 2000000`
// (KiB, about 2 GiB) and a 10 s timeout.

import (
	"context"
	"encoding/hex"
	"fmt"
	"os"
	"os/exec"
	"path/filepath"
	"strings"
	"syscall"
	"time"
)

func init() {
	observers["C14.run"] = retryHang(obsC14, "class=HANG")
	gens["C14"] = genC14
}

const c14Timeout = 10 * time.Second
const c14VmKiB = 2000000

type c14Item struct {
	Inc string // include path (when D == nil)
	D   *Dir
}

type c14Entry struct {
	Kind  byte
	Path  string
	Raw   string    // F, U
	Items []c14Item // J
}

type c14Case struct {
	Cmd   string
	Flags string // flagspec
	Tree  []c14Entry
}

func hx(s string) string {
	if s == "" {
		return "-"
	}
	return hex.EncodeToString([]byte(s))
}

func unhx(s string) string {
	if s == "-" || s == "" {
		return ""
	}
	b, err := hex.DecodeString(s)
	if err != nil {
		return ""
	}
	return string(b)
}

func (e c14Entry) content() string {
	if e.Kind != 'J' {
		return e.Raw
	}
	var p []string
	for _, it := range e.Items {
		if it.D == nil {
			p = append(p, "I "+hx(it.Inc))
		} else {
			p = append(p, it.D.Enc())
		}
	}
	return strings.Join(p, " ; ")
}

// text is what is written to disk
func (e c14Entry) text() string {
	if e.Kind != 'J' {
		return e.Raw
	}
	var b strings.Builder
	for _, it := range e.Items {
		if it.D == nil {
			fmt.Fprintf(&b, "include \"%s\"\n\n", it.Inc)
		} else {
			b.WriteString(it.D.Text())
			b.WriteString("\n")
		}
	}
	return b.String()
}

func (c c14Case) Enc() string {
	var t []string
	for _, e := range c.Tree {
		t = append(t, fmt.Sprintf("%c:%s:%s", e.Kind, hx(e.Path), hx(e.content())))
	}
	return c.Cmd + " # " + c.Flags + " # " + strings.Join(t, " ")
}

func decodeC14(in string) c14Case {
	parts := strings.SplitN(in, " # ", 3)
	for len(parts) < 3 {
		parts = append(parts, "")
	}
	c := c14Case{Cmd: parts[0], Flags: parts[1]}
	for _, f := range strings.Fields(parts[2]) {
		x := strings.SplitN(f, ":", 3)
		if len(x) != 3 || len(x[0]) != 1 {
			continue
		}
		e := c14Entry{Kind: x[0][0], Path: unhx(x[1])}
		body := unhx(x[2])
		if e.Kind == 'J' {
			for _, item := range strings.Split(body, " ; ") {
				item = strings.TrimSpace(item)
				if item == "" {
					continue
				}
				if strings.HasPrefix(item, "I ") {
					e.Items = append(e.Items, c14Item{Inc: unhx(strings.TrimPrefix(item, "I "))})
					continue
				}
				if j := DecodeJournal(item); len(j) == 1 {
					d := j[0]
					e.Items = append(e.Items, c14Item{D: &d})
				}
			}
		} else {
			e.Raw = body
		}
		c.Tree = append(c.Tree, e)
	}
	return c
}

var c14CmdWords = map[string][]string{
	"check": {"check"}, "balance": {"balance"}, "print": {"print"}, "format": {"format"}, "infer": {"infer"},
	"transcode": {"transcode"}, "weights": {"portfolio", "weights"}, "returns": {"portfolio", "returns"},
}

// argv: the command line; dir is the materialised tree (the universe file of `weights` is written there)
func (c c14Case) argv(dir string) []string {
	root := "missing.knut"
	if len(c.Tree) > 0 {
		root = c.Tree[0].Path
	}
	var a []string
	switch {
	case strings.HasPrefix(c.Flags, "bal "):
		a = DecodeBalCfg(strings.TrimPrefix(c.Flags, "bal ")).Args() // starts with "balance"
	case strings.HasPrefix(c.Flags, "tc "):
		a = []string{"transcode"}
		if v := strings.TrimPrefix(strings.TrimSpace(strings.TrimPrefix(c.Flags, "tc ")), "val="); v != "-" && v != "" {
			a = append(a, "-v", v)
		}
	case strings.HasPrefix(c.Flags, "pfw "):
		pc := DecodePfCfg(strings.TrimPrefix(c.Flags, "pfw "))
		a = pc.weightsArgs(dir, true, pc.From)
	case strings.HasPrefix(c.Flags, "pfwt "):
		pc := DecodePfCfg(strings.TrimPrefix(c.Flags, "pfwt "))
		a = pc.weightsArgs(dir, false, pc.From)
	case strings.HasPrefix(c.Flags, "pfr "):
		a = DecodePfCfg(strings.TrimPrefix(c.Flags, "pfr ")).returnsArgs()
	case strings.HasPrefix(c.Flags, "raw"), strings.HasPrefix(c.Flags, "flg"):
		a = append(a, c14CmdWords[c.Cmd]...)
		for _, h := range strings.Fields(c.Flags[3:]) {
			a = append(a, unhx(h))
		}
	default:
		a = append(a, c14CmdWords[c.Cmd]...)
	}
	return append(a, root)
}

// materialise writes the tree below dir
func (c c14Case) materialise(dir string) {
	var locked []string
	for _, e := range c.Tree {
		if e.Path == "" || strings.HasPrefix(e.Path, "/") || strings.Contains(e.Path, "..") {
			continue // generated trees are relative and stay inside dir
		}
		p := filepath.Join(dir, e.Path)
		switch e.Kind {
		case 'D':
			os.MkdirAll(p, 0o755)
		case 'U':
			if os.Geteuid() == 0 {
				os.MkdirAll(p, 0o755) // permissions are not enforced for root: a read error of another kind
			} else {
				os.MkdirAll(filepath.Dir(p), 0o755)
				os.WriteFile(p, []byte(e.text()), 0o644)
				locked = append(locked, p)
			}
		default:
			os.MkdirAll(filepath.Dir(p), 0o755)
			os.WriteFile(p, []byte(e.text()), 0o644)
		}
	}
	for _, p := range locked {
		os.Chmod(p, 0)
	}
}

// runLimited runs the binary under an address-space limit and a timeout; the whole process
// group is killed on timeout.
func runLimited(bin, dir string, timeout time.Duration, args ...string) (runResult, bool) {
	ctx, cancel := context.WithTimeout(context.Background(), timeout)
	defer cancel()
	sh := fmt.Sprintf("ulimit -v %d; exec \"$@\"", c14VmKiB)
	cmd := exec.Command("/bin/sh", append([]string{"-c", sh, "sh", bin}, args...)...)
	cmd.Dir = dir
	cmd.Env = append(os.Environ(), "GOMAXPROCS=4")
	cmd.SysProcAttr = &syscall.SysProcAttr{Setpgid: true}
	so, se := &capBuf{max: 1 << 20}, &capBuf{max: 1 << 20}
	cmd.Stdout, cmd.Stderr = so, se
	if err := cmd.Start(); err != nil {
		return runResult{Exit: -1, Stderr: err.Error()}, false
	}
	done := make(chan error, 1)
	go func() { done <- cmd.Wait() }()
	var err error
	hang := false
	select {
	case err = <-done:
	case <-ctx.Done():
		hang = true
		syscall.Kill(-cmd.Process.Pid, syscall.SIGKILL)
		<-done
	}
	res := runResult{Stdout: so.String(), Stderr: se.String(), Hang: hang}
	if err != nil && !hang {
		if ee, ok := err.(*exec.ExitError); ok {
			res.Exit = ee.ExitCode()
		} else {
			res.Exit = -1
		}
	}
	return res, so.n > 0
}

// capBuf keeps the first max bytes and counts all of them (a panic trace or a huge report must
// not blow up the harness)
type capBuf struct {
	b   []byte
	n   int
	max int
}

func (c *capBuf) Write(p []byte) (int, error) {
	c.n += len(p)
	if len(c.b) < c.max {
		k := c.max - len(c.b)
		if k > len(p) {
			k = len(p)
		}
		c.b = append(c.b, p[:k]...)
	}
	return len(p), nil
}
func (c *capBuf) String() string { return string(c.b) }

func c14Class(r runResult) string {
	switch {
	case r.Hang:
		return "HANG"
	case strings.Contains(r.Stderr, "out of memory") || strings.Contains(r.Stderr, "cannot allocate memory"):
		return "OOM"
	case strings.Contains(r.Stderr, "panic:") || strings.Contains(r.Stderr, "fatal error:") ||
		strings.Contains(r.Stderr, "goroutine ") || r.Exit == 2:
		return "PANIC"
	case r.Exit == 0:
		return "OK"
	case r.Exit == 1:
		return "ERR"
	}
	return fmt.Sprintf("EXIT%d", r.Exit)
}

// c14Sig: the innermost panic message, without addresses, as one token (diagnostic aid and the
// handle by which a known finding is matched)
func c14Sig(r runResult) string {
	cl := c14Class(r)
	if cl != "PANIC" && cl != "OOM" {
		return ""
	}
	msg := ""
	for _, l := range strings.Split(r.Stderr, "\n") {
		l = strings.TrimSpace(l)
		if strings.HasPrefix(l, "panic:") || strings.HasPrefix(l, "fatal error:") {
			msg = l
			break
		}
	}
	for strings.HasPrefix(msg, "panic: ") {
		msg = strings.TrimPrefix(msg, "panic: ")
	}
	var b strings.Builder
	for _, ch := range msg {
		switch {
		case ch >= 'a' && ch <= 'z' || ch >= 'A' && ch <= 'Z':
			b.WriteRune(ch)
		case b.Len() > 0 && !strings.HasSuffix(b.String(), "_"):
			b.WriteByte('_')
		}
		if b.Len() >= 60 {
			break
		}
	}
	return strings.Trim(b.String(), "_")
}

func obsC14(in string) string {
	c := decodeC14(in)
	var out string
	withTempDir(func(dir string) {
		c.materialise(dir)
		r, anyOut := runLimited(knutBin(), dir, c14Timeout, c.argv(dir)...)
		// make everything removable again
		filepath.Walk(dir, func(p string, info os.FileInfo, err error) error {
			if err == nil && info.Mode().Perm() == 0 {
				os.Chmod(p, 0o644)
			}
			return nil
		})
		out = fmt.Sprintf("class=%s stdout_empty=%s stderr_nonempty=%s", c14Class(r), b2s(!anyOut), b2s(len(r.Stderr) > 0))
		if sig := c14Sig(r); sig != "" {
			out += " sig=" + sig
		}
	})
	return out
}

// ---------------------------------------------------------------- generators

func jEntry(path string, ds Journal, incs ...string) c14Entry {
	e := c14Entry{Kind: 'J', Path: path}
	for _, i := range incs {
		e.Items = append(e.Items, c14Item{Inc: i})
	}
	for k := range ds {
		d := ds[k]
		e.Items = append(e.Items, c14Item{D: &d})
	}
	return e
}

// onlyPrices: a file that may be loaded twice without changing the verdict
func splitPrices(j Journal) (prices, rest Journal) {
	for _, d := range j {
		if d.Kind == 'P' {
			prices = append(prices, d)
		} else {
			rest = append(rest, d)
		}
	}
	return
}

func chunks(r *rng, j Journal, k int) []Journal {
	out := make([]Journal, k)
	for _, d := range j {
		i := r.intn(k)
		out[i] = append(out[i], d)
	}
	return out
}

var c14Shapes = []string{"single", "flat", "chain", "diamond", "self", "mutual", "inner-cycle", "missing", "directory", "unreadable", "bad-child", "dotdot"}

// c14Tree spreads a journal over an include tree of the given shape.  Returns the tree and
// whether the shape can make the pinned loader recurse forever.
func c14Tree(r *rng, j Journal, shape string) ([]c14Entry, bool) {
	switch shape {
	case "flat":
		k := r.rangeInt(2, 4)
		ch := chunks(r, j, k+1)
		var incs []string
		var t []c14Entry
		for i := 1; i <= k; i++ {
			p := fmt.Sprintf("inc/part%d.knut", i)
			incs = append(incs, p)
			t = append(t, jEntry(p, ch[i]))
		}
		return append([]c14Entry{jEntry("journal.knut", ch[0], incs...)}, t...), false
	case "chain":
		k := r.rangeInt(2, 7)
		ch := chunks(r, j, k)
		var t []c14Entry
		for i := 0; i < k; i++ {
			p := fmt.Sprintf("d%d/f%d.knut", i, i)
			if i == 0 {
				p = "journal.knut"
			}
			var incs []string
			if i+1 < k {
				if i == 0 {
					incs = []string{fmt.Sprintf("d%d/f%d.knut", i+1, i+1)}
				} else {
					incs = []string{fmt.Sprintf("../d%d/./f%d.knut", i+1, i+1)}
				}
			}
			t = append(t, jEntry(p, ch[i], incs...))
		}
		return t, false
	case "diamond":
		pr, rest := splitPrices(j)
		if r.chance(30) {
			pr = nil
		}
		ch := chunks(r, rest, 3)
		return []c14Entry{
			jEntry("journal.knut", ch[0], "a.knut", "sub/b.knut"),
			jEntry("a.knut", ch[1], "shared/d.knut"),
			jEntry("sub/b.knut", ch[2], "../shared/d.knut"),
			jEntry("shared/d.knut", pr),
		}, false
	case "self":
		return []c14Entry{jEntry("journal.knut", j, pick(r, []string{"journal.knut", "./journal.knut", "x/../journal.knut"}))}, true
	case "mutual":
		ch := chunks(r, j, 2)
		return []c14Entry{jEntry("journal.knut", ch[0], "sub/b.knut"), jEntry("sub/b.knut", ch[1], "../journal.knut")}, true
	case "inner-cycle":
		ch := chunks(r, j, 4)
		return []c14Entry{jEntry("journal.knut", ch[0], "a.knut"), jEntry("a.knut", ch[1], "b.knut"),
			jEntry("b.knut", ch[2], "c.knut"), jEntry("c.knut", ch[3], "a.knut")}, true
	case "missing":
		ch := chunks(r, j, 2)
		return []c14Entry{jEntry("journal.knut", ch[0], "a.knut"), jEntry("a.knut", ch[1], pick(r, []string{"nothere.knut", "../nothere.knut", "no/such/dir/x.knut", ""}))}, false
	case "directory":
		return []c14Entry{jEntry("journal.knut", j, "sub"), {Kind: 'D', Path: "sub"}}, false
	case "unreadable":
		return []c14Entry{jEntry("journal.knut", j, "locked.knut"), {Kind: 'U', Path: "locked.knut", Raw: "2020-01-01 open Assets:Locked\n"}}, false
	case "bad-child":
		ch := chunks(r, j, 2)
		bad := pick(r, []string{"2020-01-01 opn Assets:X\n", "\"unterminated\n", "2020-01-01 open Assets:X extra\n", "2020-01-01 open Foo:X\n", "20200101 open Assets:X\n", "\xff\xfe\n2020-01-01 open Assets:X\n"})
		return []c14Entry{jEntry("journal.knut", ch[0], "a.knut"), jEntry("a.knut", ch[1], "bad.knut"), {Kind: 'F', Path: "bad.knut", Raw: bad}}, false
	case "dotdot":
		ch := chunks(r, j, 2)
		return []c14Entry{jEntry("deep/er/journal.knut", ch[0], "../../top.knut"), jEntry("top.knut", ch[1])}, false
	}
	return []c14Entry{jEntry("journal.knut", j)}, false
}

// c14Hostile modifies a structured journal so that it reaches one of the guards; returns a tag
func c14Hostile(r *rng, j *Journal, cfg *BalCfg) string {
	accs := journalAccounts(*j)
	firstOf := func(prefix string) string {
		for _, a := range accs {
			if strings.HasPrefix(a, prefix) {
				return a
			}
		}
		return ""
	}
	as, ex := firstOf("Assets"), firstOf("Expenses")
	addEarly := func(date string) {
		// a transaction on the given (very early) day between two accounts opened that day
		*j = append(*j, Dir{Kind: 'O', Date: date, Acc: "Assets:Early"}, Dir{Kind: 'O', Date: date, Acc: "Expenses:Early"},
			Dir{Kind: 'T', Date: date, Desc: "early", Bookings: []Booking{{"Assets:Early", "Expenses:Early", "1", "CHF"}}})
	}
	switch k := r.intn(12); k {
	case 0:
		addEarly("0001-01-01")
		return "txn-day0"
	case 1:
		addEarly("0000-06-01")
		return "txn-year0"
	case 2, 3:
		if as != "" && ex != "" {
			iv := pick(r, []string{"daily", "weekly", "monthly", "quarterly"})
			*j = append(*j, Dir{Kind: 'T', Date: "2020-02-01", Desc: "inverted accrual", Accrual: &Accrual{iv, "2020-06-01", "2020-01-01", as},
				Bookings: []Booking{{as, ex, "12", "CHF"}}})
			if r.chance(50) {
				// the same impossible window once more at the other end of the journal - in another file, when the journal
				// is spread over an include tree (seeded change C14f-accrual-schedule-cache-keeps-failed-entry remembered
				// the empty schedule of the first one and divided by its length for the second)
				*j = append(Journal{Dir{Kind: 'T', Date: "2020-03-01", Desc: "inverted accrual again", Accrual: &Accrual{iv, "2020-06-01", "2020-01-01", as},
					Bookings: []Booking{{as, ex, "7", "CHF"}}}}, *j...)
				return "accrual-inverted-twice-" + iv
			}
			return "accrual-inverted-" + iv
		}
	case 4:
		if as != "" && ex != "" {
			*j = append(*j, Dir{Kind: 'T', Date: "2020-02-01", Desc: "zero accrual", Accrual: &Accrual{pick(r, []string{"monthly", "daily"}), "0001-01-01", "0001-03-01", as},
				Bookings: []Booking{{as, ex, "12", "CHF"}}})
			return "accrual-day0"
		}
	case 5:
		cfg.Map = append(cfg.Map, fmt.Sprintf("%d,%s", -r.rangeInt(1, 3), pick(r, []string{"^Assets", "^Expenses", "Bank", "^"})))
		return "map-neg-level"
	case 6:
		cfg.Map = append(cfg.Map, fmt.Sprintf("%d:%d,%s", r.rangeInt(1, 2), -r.rangeInt(1, 3), pick(r, []string{"^Assets", "^Expenses", "^"})))
		return "map-neg-suffix"
	case 7:
		cfg.From, cfg.To = "2021-06-01", "2020-01-01"
		return "window-inverted"
	case 8:
		cfg.Last = -r.rangeInt(1, 5)
		return "last-negative"
	case 9:
		*j = nil
		return "empty-journal"
	case 10:
		var keep Journal
		for _, d := range *j {
			if d.Kind == 'O' || d.Kind == 'P' {
				keep = append(keep, d)
			}
		}
		*j = keep
		return "no-transactions"
	case 11:
		*j = append(*j, Dir{Kind: 'P', Date: "2020-01-01", Com: "USD", Price: "0", Target: "CHF"})
		return "price-zero"
	}
	return "none"
}

// c14LateFailure appends a directive that loads but is rejected while the days are processed (by the checker, or by
// Valuate for want of a price): the failures that only the processors of a command can report
func c14LateFailure(r *rng, j *Journal, o genOpts) string {
	accs := journalAccounts(*j)
	var al []string
	for _, a := range accs {
		if isAL(a) {
			al = append(al, a)
		}
	}
	if len(al) == 0 || len(accs) < 2 {
		return "none"
	}
	a := pick(r, al)
	other := pick(r, accs)
	if other == a {
		other = accs[0]
	}
	day := dateStr(o.startDate.AddDate(0, 0, o.days/2+r.intn(o.days/2+1)))
	switch r.intn(4) {
	case 0: // a booking on an account that was never opened
		*j = append(*j, Dir{Kind: 'T', Date: day, Desc: "unopened", Bookings: []Booking{{a, "Assets:NeverOpened", "7", "CHF"}}})
		return "unopened-account"
	case 1: // an assertion that does not hold
		*j = append(*j, Dir{Kind: 'A', Date: day, Bals: []Bal{{a, "123456789.5", "CHF"}}})
		return "failed-assertion"
	case 2: // an account opened twice
		*j = append(*j, Dir{Kind: 'O', Date: day, Acc: a})
		return "opened-twice"
	default: // a position in a commodity that has no price (an error only under a valuation)
		*j = append(*j, Dir{Kind: 'T', Date: day, Desc: "unpriced", Bookings: []Booking{{other, a, "3", "NOPRICE"}}})
		return "no-price"
	}
}

// c14More turns a case of the modelled space into one for transcode, weights or returns
func c14More(r *rng, c *c14Case, cfg BalCfg, o genOpts) {
	val := cfg.Val
	if val == "-" || val == "" {
		val = pick(r, []string{"CHF", "CHF", "USD", "-"})
	}
	switch r.intn(3) {
	case 0:
		c.Cmd = "transcode"
		if r.chance(10) {
			val = pick(r, []string{"-", "XYZ"})
		}
		c.Flags = "tc val=" + val
	case 1:
		pc := PfCfg{From: cfg.From, To: cfg.To, Interval: cfg.Interval, Last: cfg.Last, Val: val, Acc: cfg.Acc, Com: cfg.Com,
			Map: cfg.Map, Alpha: r.chance(50), Uni: "-", WFrom: "-"}
		// the mapping of weights works on class paths ("Other:CHF", or the universe's classes)
		if len(pc.Map) == 0 && r.chance(40) {
			pc.Map = []string{pick(r, []string{"1", "1,^Other", "0,CHF", "2,^Other", "1:1,^Other", "1,^Cash", "0,^Cash"})}
		}
		if r.chance(30) && len(o.commodities) > 0 {
			pc.Uni = "Cash=" + strings.Join(o.commodities[:1+r.intn(len(o.commodities))], ",")
			if r.chance(10) {
				pc.Uni += ";Dup=" + o.commodities[0] // a commodity in two classes: LoadUniverse rejects it
			}
		}
		c.Cmd = "weights"
		if r.chance(70) {
			c.Flags = "pfw " + pc.Enc()
		} else {
			c.Flags = "pfwt " + pc.Enc()
		}
	default:
		pc := PfCfg{From: cfg.From, To: cfg.To, Interval: cfg.Interval, Last: cfg.Last, Val: val, Acc: cfg.Acc, Com: cfg.Com,
			Alpha: false, Uni: "-", WFrom: "-"}
		c.Cmd = "returns"
		c.Flags = "pfr " + pc.Enc()
	}
}

func rawFlags(args ...string) string {
	var p []string
	for _, a := range args {
		p = append(p, hx(a))
	}
	return strings.TrimSpace("raw " + strings.Join(p, " "))
}

func randBytes(r *rng, n int) string {
	b := make([]byte, n)
	for i := range b {
		switch r.intn(6) {
		case 0:
			b[i] = byte(r.intn(256))
		case 1:
			b[i] = "\n\n \t\"@:-."[r.intn(9)]
		default:
			b[i] = "0123456789abcdefghijklmnopqrstuvwxyzABCDEFGHIJKLMNOPQRSTUVWXYZ"[r.intn(62)]
		}
	}
	return string(b)
}

var c14Fragments = []string{
	"0001-01-01 open Assets:A\n", "9999-12-31 open Assets:A\n", "0000-01-01 open Assets:A\n", "2020-02-30 open Assets:A\n",
	"2020-01-01 price USD 0 CHF\n", "2020-01-01 price USD -1 CHF\n", "2020-01-01 price USD 1e999999999 CHF\n", "2020-01-01 price CHF 1 CHF\n",
	"2020-01-01 \"t\"\nAssets:A Expenses:B 1e999999999 CHF\n", "2020-01-01 \"t\"\nAssets:A Expenses:B -0 CHF\n",
	"2020-01-01 \"t\"\nAssets:A Assets:A 1 CHF\n", "2020-01-01 \"t\"\nAssets:A Expenses:B 0.00000000000000000000000000000000000001 CHF\n",
	"@accrue once 2020-01-01 2020-12-31 Assets:A\n2020-01-01 \"t\"\nAssets:A Expenses:B 10 CHF\n",
	"@accrue yearly 2020-12-31 2020-01-01 Assets:A\n2020-01-01 \"t\"\nAssets:A Expenses:B 10 CHF\n",
	"@accrue daily 0001-01-01 0001-01-05 Assets:A\n2020-01-01 \"t\"\nAssets:A Expenses:B 10 CHF\n",
	"@accrue hourly 2020-01-01 2020-12-31 Assets:A\n2020-01-01 \"t\"\nAssets:A Expenses:B 10 CHF\n",
	"@performance(\n2020-01-01 \"t\"\nAssets:A Expenses:B 10 CHF\n", "@performance()\n2020-01-01 \"t\"\nAssets:A Expenses:B 10 CHF\n",
	"include \"\"\n", "include \".\"\n", "include \"..\"\n", "include \"../../../x\"\n", "include \"a\\\"b\"\n",
	"2020-01-01 balance Assets:A 1 CHF\n", "2020-01-01 balance\nAssets:A 1 CHF\nAssets:A 2 CHF\n", "2020-01-01 close Assets:A\n",
	"2020-01-01 open Assets\n", "2020-01-01 open Assets:\n", "2020-01-01 open :A\n", "2020-01-01 open Equity:Equity\n", "2020-01-01 open Income:A\n",
	"2020-01-01 open Assets:A\n2020-01-01 open Assets:A\n", "2020-01-01 open Expenses:B\n", "2020-01-01 open Assets:A\n",
	"* comment\n", "# comment\n", "// comment\n", "\r\n", "\xef\xbb\xbf", "2020-01-01 \"\xff\"\nAssets:A Expenses:B 1 CHF\n",
}

func mutateText(r *rng, s string) string {
	b := []byte(s)
	n := 1 + r.intn(4)
	for k := 0; k < n; k++ {
		if len(b) == 0 {
			b = []byte(pick(r, c14Fragments))
			continue
		}
		i := r.intn(len(b))
		switch r.intn(8) {
		case 0:
			b[i] = byte(r.intn(256))
		case 1:
			b = append(b[:i], b[i+1:]...)
		case 2:
			b = append(b[:i], append([]byte(randBytes(r, 1+r.intn(4))), b[i:]...)...)
		case 3:
			b = b[:i]
		case 4:
			// insert a fragment at a line start
			for i > 0 && b[i-1] != '\n' {
				i--
			}
			b = append(b[:i], append([]byte(pick(r, c14Fragments)), b[i:]...)...)
		case 5:
			// swap a date for an extreme one
			if j := strings.Index(string(b[i:]), "20"); j >= 0 && i+j+10 <= len(b) {
				copy(b[i+j:], pick(r, []string{"0001-01-01", "9999-12-31", "0000-01-01", "2020-00-00", "2020-12-32"}))
			}
		case 6:
			// a very long token
			b = append(b[:i], append([]byte(strings.Repeat(pick(r, []string{"9", "A", "\"", " ", ":"}), 1+r.intn(5000))), b[i:]...)...)
		case 7:
			b = append(b, b[i:]...)
		}
	}
	return string(b)
}

var c14Cmds = []string{"check", "balance", "print", "format", "infer", "transcode", "weights", "returns"}

// benign flags that let the command reach the journal
func c14Benign(r *rng, cmd string, root string) []string {
	switch cmd {
	case "balance":
		a := []string{"--to", "2021-12-31", "--color=false"}
		if r.chance(40) {
			a = append(a, "-v", "CHF")
		}
		if r.chance(40) {
			a = append(a, pick(r, []string{"--months", "--years", "--quarters", "--weeks"}))
		}
		return a
	case "transcode":
		return []string{"-v", "CHF"}
	case "weights":
		return []string{"-v", "CHF", "--to", "2021-12-31", "--color=false"}
	case "returns":
		return []string{"-v", "CHF", "--to", "2021-12-31", "--months"}
	case "infer":
		return []string{"-t", root}
	case "check":
		if r.chance(30) {
			return []string{"--write"}
		}
	}
	return nil
}

type c14FlagPool struct {
	name string
	vals []string
}

var c14Dates = []string{"2020-01-01", "2021-06-01", "0001-01-01", "0000-01-01", "9999-12-31", "2020-02-30", "", "x", "-1", "20200101"}

// (the 64-bit extremes and a value that is an absurd but representable count: seeded change C14c-last-preallocates
// sized an allocation with --last and was missed while the largest values were 2^31-1 and an unparsable one)
var c14Ints = []string{"0", "1", "-1", "-5", "3", "2147483647", "-2147483648", "99999999999999999999", "x", "",
	"9223372036854775807", "-9223372036854775808", "4294967296", "1000000000000"}

// what strconv.ParseInt(s, 0, 64) makes of base prefixes, underscores and signs (pflag's int flags)
var c14IntForms = []string{"0x10", "0X1f", "0b101", "0o17", "017", "08", "1_000", "1__0", "_1", "1_", "0x_f", "+3", "+", "-", "0x", " 1", "1e3", "-0x8000000000000000", "0x8000000000000000"}
var c14Rx = []string{"Assets", "^Expenses", "(", "[", ".*", "", "\\", "a{1000}", "(?i)assets", "$^"}
var c14Coms = []string{"CHF", "USD", "", "X Y", "chf", "ÄÖ", "1", "A:B", strings.Repeat("C", 3000)}
var c14Maps = []string{"1,Assets", "0,Assets", "-1,Assets", "-1", "1:-1,Assets", "1:-2,", "-2:-2,.", "2:1,^", "99,Assets", "1:99,Assets", "x,Assets", "1:2:3,A", ",", "", "1,(", "2147483648,A"}

func c14Pools(cmd string) []c14FlagPool {
	multi := []c14FlagPool{{"--from", c14Dates}, {"--to", c14Dates}, {"--last", c14Ints},
		{"--days", nil}, {"--weeks", nil}, {"--months", nil}, {"--quarters", nil}, {"--years", nil}, {"--once", nil},
		// the forms of pflag's argument list: explicit boolean values (a flag set to false still counts as set for the
		// exclusive interval group), clustered shorthands, the terminator, a lone dash, malformed flag syntax, help
		{"--last", c14IntForms}, {"--days=false", nil}, {"--months=true", nil}, {"--years=maybe", nil}, {"--once=0", nil},
		{"-ak", nil}, {"-ka", nil}, {"--", nil}, {"-", nil}, {"--=x", nil}, {"---x", nil}, {"--help", nil}, {"-h", nil}}
	switch cmd {
	case "balance":
		return append(multi, c14FlagPool{"-v", c14Coms}, c14FlagPool{"-m", c14Maps}, c14FlagPool{"--remap", c14Rx},
			c14FlagPool{"--account", c14Rx}, c14FlagPool{"--commodity", c14Rx}, c14FlagPool{"-s", c14Rx},
			c14FlagPool{"--digits", []string{"0", "2", "-1", "-5", "8", "30", "x", "2147483648", "0x10", "1_0", "-2147483649", "010"}}, c14FlagPool{"-k", nil}, c14FlagPool{"--csv", nil},
			c14FlagPool{"--diff", nil}, c14FlagPool{"--close=false", nil}, c14FlagPool{"-a", nil}, c14FlagPool{"--color=false", nil},
			c14FlagPool{"--cpuprofile", []string{"no/such/dir/prof", ""}}, c14FlagPool{"--nosuchflag", nil})
	case "weights":
		return append(multi, c14FlagPool{"-v", c14Coms}, c14FlagPool{"-m", c14Maps}, c14FlagPool{"--account", c14Rx}, c14FlagPool{"--commodity", c14Rx},
			c14FlagPool{"--universe", []string{"nothere.yaml", "journal.knut", "", "."}}, c14FlagPool{"--digits", []string{"0", "2", "-3", "x"}},
			c14FlagPool{"--csv", nil}, c14FlagPool{"-a", nil}, c14FlagPool{"-k", nil}, c14FlagPool{"--color=false", nil})
	case "returns":
		return append(multi, c14FlagPool{"-v", c14Coms}, c14FlagPool{"--account", c14Rx}, c14FlagPool{"--commodity", c14Rx})
	case "transcode":
		return []c14FlagPool{{"-v", c14Coms}, {"--nosuchflag", nil}}
	case "check":
		return []c14FlagPool{{"--write", nil}, {"--no-check", nil}, {"--nosuchflag", nil}}
	case "infer":
		return []c14FlagPool{{"-t", []string{"journal.knut", "nothere.knut", "", ".", "empty.knut"}}, {"-a", []string{"Expenses:TBD", "", "Foo", "Assets:Bank", ":"}}, {"--inplace", nil}}
	}
	return []c14FlagPool{{"--nosuchflag", nil}}
}

func c14HostileFlags(r *rng, cmd string) []string {
	pools := c14Pools(cmd)
	var a []string
	n := r.rangeInt(0, 4)
	for k := 0; k < n; k++ {
		p := pick(r, pools)
		if p.vals == nil {
			a = append(a, p.name)
		} else {
			// "--name value", "--name=value"; "-x value", "-xvalue", "-x=value"
			v := pick(r, p.vals)
			long := strings.HasPrefix(p.name, "--")
			switch f := r.intn(100); {
			case long && f < 25:
				a = append(a, p.name+"="+v)
			case !long && f < 15 && v != "":
				a = append(a, p.name+v)
			case !long && f < 25:
				a = append(a, p.name+"="+v)
			default:
				a = append(a, p.name, v)
			}
		}
		if p.name == "--last" && r.chance(60) {
			// --last only matters together with an interval
			a = append(a, pick(r, []string{"--days", "--weeks", "--months", "--quarters", "--years"}))
		}
	}
	return a
}

const c14SmallJournal = "2020-01-01 open Assets:Bank\n2020-01-01 open Assets:Bank:Savings\n2020-01-01 open Expenses:Rent\n2020-01-01 open Income:Salary\n2020-01-01 open Equity:Equity\n2020-01-01 open Expenses:TBD\n\n" +
	"2020-01-01 price USD 0.9 CHF\n\n2020-01-05 \"Salary\"\nIncome:Salary Assets:Bank 1000 CHF\n\n2020-02-06 \"Rent\"\nAssets:Bank Expenses:Rent 500 CHF\n\n" +
	"2020-03-01 \"Save\"\nAssets:Bank Assets:Bank:Savings 100 USD\n\n2020-03-02 \"TBD\"\nAssets:Bank Expenses:TBD 5 CHF\n"

// genC14: see the header of this file and checks/c14.py RULE
func genC14(out *caseWriter, seed uint64, n int, args []string) error {
	var normal, slow []caseIn
	for i := 0; i < n; i++ {
		r := newRng(seed, "C14", i)
		id := fmt.Sprintf("C14-%d-%d", seed, i)
		var c c14Case
		hangProne := false
		switch k := r.intn(100); {
		case k < 40: // inside the modelled space: structured journal, include tree, check/print/balance
			o := defaultOpts(r)
			o.nTxn = r.rangeInt(1, 10)
			j := genJournal(r, o)
			cmd := pick(r, []string{"check", "print", "balance", "balance"})
			cfg := genBalCfg(r, j, o, r.chance(40), r.chance(40))
			cfg.CSV = r.chance(70)
			if !cfg.CSV {
				cfg.Digits = r.rangeInt(0, 4)
				cfg.Thousands = r.chance(20)
			}
			if r.chance(45) {
				c14Hostile(r, &j, &cfg)
			}
			// a third of these cases go through transcode / portfolio weights / portfolio returns instead, with the
			// same tree shape and (hostile) window, valuation and mapping flags.  A separate random stream: the
			// cases of the other commands stay what they were.
			more := newRng(seed, "C14more", i)
			convert := more.chance(34)
			if convert && more.chance(30) {
				c14LateFailure(more, &j, o)
			}
			shape := "single"
			if r.chance(55) {
				shape = pick(r, c14Shapes)
				// cycles make the pinned loader spin until the timeout: keep them few
				if (shape == "self" || shape == "mutual" || shape == "inner-cycle") && !r.chance(25) {
					shape = "chain"
				}
			}
			c.Tree, hangProne = c14Tree(r, j, shape)
			c.Cmd = cmd
			if cmd == "balance" {
				c.Flags = "bal " + cfg.Enc()
			} else {
				c.Flags = "pred"
			}
			if convert {
				c14More(more, &c, cfg, o)
			}
		case k < 65: // arbitrary bytes and mutated journals, all commands
			cmd := pick(r, c14Cmds)
			var text string
			switch r.intn(6) {
			case 0:
				text = randBytes(r, r.intn(300))
			case 1:
				text = ""
				for q := r.intn(6); q >= 0; q-- {
					text += pick(r, c14Fragments)
				}
			case 2:
				text = mutateText(r, c14SmallJournal)
			case 3:
				// account life cycles (open, book, flatten, close, re-open, book again, assertions in between), valid
				// or broken by one of C04's mutations, unmutated text: state kept per account across a close must not
				// crash a later step (seeded change C14d-held-index-nil-after-close panicked on a booking after a re-open)
				g := genLifecycle(r)
				if r.chance(40) {
					mutateC04(r, g, pick(r, c04Mutations))
				}
				j := g.j
				r.shuffle(len(j), func(a, b int) { j[a], j[b] = j[b], j[a] })
				text = j.Text()
			default:
				o := defaultOpts(r)
				o.nTxn = r.rangeInt(1, 8)
				text = mutateText(r, genJournal(r, o).Text())
			}
			c.Cmd = cmd
			c.Tree = []c14Entry{{Kind: 'F', Path: "journal.knut", Raw: text}}
			c.Flags = rawFlags(c14Benign(r, cmd, "journal.knut")...)
		case k < 90: // every flag absent / negative / huge / inverted / malformed
			cmd := pick(r, c14Cmds)
			c.Cmd = cmd
			text := c14SmallJournal
			if r.chance(15) {
				text = ""
			}
			c.Tree = []c14Entry{{Kind: 'F', Path: "journal.knut", Raw: text}, {Kind: 'F', Path: "empty.knut", Raw: ""}}
			fl := c14HostileFlags(r, cmd)
			if (cmd == "balance" || cmd == "weights" || cmd == "returns") && r.chance(15) {
				// a count flag at the edge of its type together with the interval that makes it matter
				fl = []string{"--last", pick(r, []string{"9223372036854775807", "4294967296", "1000000000000", "2147483647", "-9223372036854775808"}),
					pick(r, []string{"--days", "--weeks", "--months", "--quarters", "--years"})}
			}
			if r.chance(60) {
				fl = append(c14Benign(r, cmd, "journal.knut"), fl...)
			}
			if r.chance(3) {
				fl = append(fl, "extra-positional.knut")
			}
			c.Flags = "flg" + strings.TrimPrefix(rawFlags(fl...), "raw")
			if r.chance(2) {
				c.Tree = nil // the root file does not exist
			}
		case k < 99: // include graphs over raw files
			cmd := pick(r, c14Cmds)
			c.Cmd = cmd
			shape := pick(r, []string{"chain", "diamond", "missing", "directory", "unreadable", "bad-child", "dotdot", "flat", "self", "mutual", "inner-cycle", "wide", "wide-nested", "wide-nested", "deep"})
			if (shape == "self" || shape == "mutual" || shape == "inner-cycle") && !r.chance(30) {
				shape = "deep"
			}
			switch shape {
			case "wide":
				root := c14Entry{Kind: 'F', Path: "journal.knut"}
				for q := 0; q < 200; q++ {
					p := fmt.Sprintf("w/%d.knut", q)
					root.Raw += fmt.Sprintf("include \"%s\"\n", p)
					c.Tree = append(c.Tree, c14Entry{Kind: 'F', Path: p, Raw: fmt.Sprintf("2020-01-01 open Assets:W%d\n", q)})
				}
				c.Tree = append([]c14Entry{root}, c.Tree...)
			case "wide-nested":
				// the root includes w files, each of which includes a file of its own (optionally one of
				// the innermost files is unparseable): many parsers that still have to start another one
				// are active at once (seeded change C14-errgroup-limit-hang was missed without this)
				w := r.rangeInt(17, 60)
				bad := -1
				if r.chance(40) {
					bad = r.intn(w)
				}
				root := c14Entry{Kind: 'F', Path: "journal.knut"}
				for q := 0; q < w; q++ {
					p := fmt.Sprintf("acc/%d.knut", q)
					root.Raw += fmt.Sprintf("include \"%s\"\n", p)
					c.Tree = append(c.Tree, c14Entry{Kind: 'F', Path: p, Raw: fmt.Sprintf("2020-01-01 open Assets:W%d\ninclude \"arch/%d.knut\"\n", q, q)})
					leaf := fmt.Sprintf("2020-01-02 open Expenses:X%d\n", q)
					if q == bad {
						leaf += "2020-13-45 open open ???\n"
					}
					c.Tree = append(c.Tree, c14Entry{Kind: 'F', Path: fmt.Sprintf("acc/arch/%d.knut", q), Raw: leaf})
				}
				c.Tree = append([]c14Entry{root}, c.Tree...)
			case "deep":
				for q := 0; q < 300; q++ {
					p := fmt.Sprintf("c%d.knut", q)
					if q == 0 {
						p = "journal.knut"
					}
					txt := fmt.Sprintf("2020-01-01 open Assets:C%d\n", q)
					if q < 299 {
						txt = fmt.Sprintf("include \"c%d.knut\"\n", q+1) + txt
					}
					c.Tree = append(c.Tree, c14Entry{Kind: 'F', Path: p, Raw: txt})
				}
			default:
				o := defaultOpts(r)
				o.nTxn = r.rangeInt(1, 6)
				c.Tree, hangProne = c14Tree(r, genJournal(r, o), shape)
			}
			c.Flags = rawFlags(c14Benign(r, cmd, c.Tree[0].Path)...)
			if cmd == "format" {
				hangProne = false // format reads one file, it does not follow includes
			}
		default: // numbers of digits that no renderer can produce
			c.Cmd = "balance"
			if i%4 == 3 {
				c.Cmd = "weights"
			}
			c.Tree = []c14Entry{{Kind: 'F', Path: "journal.knut", Raw: c14SmallJournal}}
			c.Flags = rawFlags("--to", "2021-12-31", "-v", "CHF", "--color=false", "--digits", pick(r, []string{"2000000000", "2147483647", "500000000"}))
			hangProne = true
			if i%8 == 5 {
				// one directive that expands into 3.65 million transactions
				c.Cmd = pick(r, []string{"check", "print", "balance"})
				c.Tree = []c14Entry{{Kind: 'F', Path: "journal.knut", Raw: "2020-01-01 open Assets:Bank\n2020-01-01 open Expenses:Rent\n2020-01-01 open Assets:Accrual\n\n" +
					"@accrue daily 0001-01-02 9999-12-31 Assets:Accrual\n2020-01-06 \"Rent\"\nAssets:Bank Expenses:Rent 500 CHF\n"}}
				c.Flags = rawFlags(c14Benign(r, c.Cmd, "journal.knut")...)
			}
		}
		it := caseIn{id, "C14.run", c.Enc()}
		if hangProne {
			slow = append(slow, it)
		} else {
			normal = append(normal, it)
		}
	}
	out.addBatch(normal)
	out.addBatch(slow)
	return nil
}
