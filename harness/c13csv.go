package main

// C13 (extension): Go's encoding/csv reader against its model coq/Model/Csv.v.
//
// op C13.csv; input = "comma=<byte> comment=<byte> fpr=<int> lazy=0|1 trim=0|1 kind=<k> exp=<items|-> | <hex of the text>"
//   kind: canon  records written by the canonical writer (every field quoted; Model/Csv.v csv_write); exp = those
//                records when they satisfy the side conditions of C13_csv_roundtrip (no record without fields, no
//                "\r\n" inside a field, field counts as FieldsPerRecord demands), else "-"
//         gow    records written by Go's csv.Writer (minimal quoting, LF or CRLF)
//         gram   grammar-directed text: bare and quoted fields with commas, quotes, newlines, CR, leading white space
//                (ASCII and Unicode), non-ASCII and invalid UTF-8, blank / white / comment lines, all line endings
//         mal    one of the above with one byte deleted, a quote inserted or text put after a closing quote
//         rand   random bytes of a small alphabet
//   the settings are those of an importer (c13csvImporterCfgs) in 7 cases of 10, otherwise drawn freely, a few of
//   them with an invalid delimiter.
// observed = "OK <items>" | "ERR:<bare-quote|quote|field-count|invalid-delim|other> <items read before the error>"
//   (items as in c13a.go: r<hex>,<hex>;r...  or "-"), from a loop of Read() until io.EOF or the first error.

import (
	"bytes"
	"encoding/csv"
	"encoding/hex"
	"errors"
	"fmt"
	"io"
	"strconv"
	"strings"
)

func init() {
	observers["C13.csv"] = c13csvObserve
	gens["C13csv"] = genC13csv
}

type c13csvCfg struct {
	comma, comment, fpr int
	lazy, trim          bool
}

// the reader settings of the importers (Model/CsvImp.v cites the source lines)
var c13csvImporterCfgs = []c13csvCfg{
	{',', 0, 12, false, true}, // swisscard2
	{',', 0, 0, false, true},  // swisscard
	{',', 0, -1, true, false}, // cumulus, interactivebrokers
	{',', 0, 10, false, true}, // revolut2
	{';', 0, 0, false, true},  // revolut
	{',', 0, 18, false, true}, // wise
	{';', 0, 13, true, false}, // swissquote
	{';', 0, -1, true, true},  // postfinance
	{';', 0, 13, false, true}, // supercard (header), -1 afterwards:
	{';', 0, -1, false, true},
}

func (c c13csvCfg) enc() string {
	return fmt.Sprintf("comma=%d comment=%d fpr=%d lazy=%s trim=%s", c.comma, c.comment, c.fpr, b2s(c.lazy), b2s(c.trim))
}

func c13csvDecode(in string) (c13csvCfg, []byte) {
	parts := strings.SplitN(in, " | ", 2)
	var c c13csvCfg
	for _, kv := range strings.Fields(parts[0]) {
		i := strings.Index(kv, "=")
		if i < 0 {
			continue
		}
		k, v := kv[:i], kv[i+1:]
		n, _ := strconv.Atoi(v)
		switch k {
		case "comma":
			c.comma = n
		case "comment":
			c.comment = n
		case "fpr":
			c.fpr = n
		case "lazy":
			c.lazy = v == "1"
		case "trim":
			c.trim = v == "1"
		}
	}
	var data []byte
	if len(parts) > 1 && parts[1] != "-" {
		data, _ = hex.DecodeString(parts[1])
	}
	return c, data
}

func c13csvObserve(in string) string {
	c, data := c13csvDecode(in)
	rd := csv.NewReader(bytes.NewReader(data))
	rd.Comma = rune(c.comma)
	rd.Comment = rune(c.comment)
	rd.FieldsPerRecord = c.fpr
	rd.LazyQuotes = c.lazy
	rd.TrimLeadingSpace = c.trim
	var items []c13aItem
	for {
		rec, err := rd.Read()
		if err == io.EOF {
			return "OK " + c13aEncItems(items)
		}
		if err != nil {
			cls := "other"
			switch {
			case errors.Is(err, csv.ErrBareQuote):
				cls = "bare-quote"
			case errors.Is(err, csv.ErrQuote):
				cls = "quote"
			case errors.Is(err, csv.ErrFieldCount):
				cls = "field-count"
			case err.Error() == "csv: invalid field or comment delimiter":
				cls = "invalid-delim"
			}
			return "ERR:" + cls + " " + c13aEncItems(items)
		}
		items = append(items, c13aItem{rec: rec})
	}
}

// ---------------------------------------------------------------- generator

var c13csvAtoms = []string{"a", "b", "xy", "Z", "1", "-2.50", " ", "  ", "\t", ",", ";", "\"", "\"\"", "\n", "\r", "\r\n", "#",
	"\u00e9", "\u00fc", "\u00a0", "\u2003", "\u3000", "\u0085", "\u2028", "\u1680", "\u200b", "\xff", "\xc2", "\xe2\x80", "|", "'", "\\", "\x00", "\v", "\f"}

func c13csvField(r *rng) string {
	switch r.intn(10) {
	case 0:
		return ""
	case 1, 2, 3:
		return pick(r, []string{"a", "bc", "12.5", "Zürich", "x y", "-"})
	}
	var b strings.Builder
	for n := r.rangeInt(1, 6); n > 0; n-- {
		b.WriteString(pick(r, c13csvAtoms))
	}
	return b.String()
}

func c13csvRecords(r *rng, c c13csvCfg) [][]string {
	nrec := r.rangeInt(0, 5)
	width := r.rangeInt(1, 4)
	if c.fpr > 0 && r.chance(85) {
		width = c.fpr
	}
	recs := make([][]string, nrec)
	for i := range recs {
		w := width
		if r.chance(8) {
			w = r.rangeInt(0, 4) // a record of another width, sometimes without fields
		}
		recs[i] = make([]string, w)
		for j := range recs[i] {
			recs[i][j] = c13csvField(r)
		}
	}
	return recs
}

// Model/Csv.v csv_write
func c13csvCanon(comma byte, recs [][]string) []byte {
	var b bytes.Buffer
	for _, rec := range recs {
		for j, f := range rec {
			if j > 0 {
				b.WriteByte(comma)
			}
			b.WriteByte('"')
			b.WriteString(strings.ReplaceAll(f, "\"", "\"\""))
			b.WriteByte('"')
		}
		b.WriteByte('\n')
	}
	return b.Bytes()
}

// the side conditions of C13_csv_roundtrip
func c13csvRoundtrips(c c13csvCfg, recs [][]string) bool {
	if !c13csvValid(c) {
		return false
	}
	for _, rec := range recs {
		if len(rec) == 0 {
			return false
		}
		if c.fpr > 0 && len(rec) != c.fpr || c.fpr == 0 && len(rec) != len(recs[0]) {
			return false
		}
		for _, f := range rec {
			if strings.Contains(f, "\r\n") {
				return false
			}
		}
	}
	return true
}

func c13csvValidDelim(d int) bool { return d > 0 && d < 128 && d != '"' && d != '\r' && d != '\n' }
func c13csvValid(c c13csvCfg) bool {
	return c.comma != c.comment && c13csvValidDelim(c.comma) && (c.comment == 0 || c13csvValidDelim(c.comment))
}

func c13csvGram(r *rng, c c13csvCfg, recs [][]string) []byte {
	var b bytes.Buffer
	comma := string(rune(c.comma))
	if !c13csvValidDelim(c.comma) {
		comma = ","
	}
	eol := func() string { return pick(r, []string{"\n", "\n", "\n", "\r\n", "\r\n", "\r", "\r\r\n", "\n\n", "\n\r\n"}) }
	for i, rec := range recs {
		if r.chance(10) {
			b.WriteString(pick(r, []string{"\n", "\r\n", "  \n", "\t\r\n", " \n"}))
		}
		if r.chance(8) {
			cm := "#"
			if c.comment != 0 {
				cm = string(rune(c.comment))
			}
			b.WriteString(cm + pick(r, []string{" note", "\"open", "a,b", ""}) + eol())
		}
		for j, f := range rec {
			if j > 0 {
				b.WriteString(comma)
			}
			if r.chance(25) {
				b.WriteString(pick(r, []string{" ", "  ", "\t", "\u00a0", " \u2003 ", "\u3000", " \u0085", "\u202f\u205f", "\u200a\u2029", "\r", "\v\f", "\xc2 ", "\xe2\x80"}))
			}
			needs := strings.ContainsAny(f, "\"\r\n") || strings.Contains(f, comma) || strings.HasPrefix(f, " ")
			switch {
			case needs && r.chance(85), !needs && r.chance(30):
				b.WriteByte('"')
				b.WriteString(strings.ReplaceAll(f, "\"", "\"\""))
				b.WriteByte('"')
				if r.chance(4) {
					b.WriteString(pick(r, []string{" ", "x", "\r", "\"x"}))
				}
			case r.chance(6):
				b.WriteString("\"" + f) // lone quotes kept as they are, no closing quote
			default:
				b.WriteString(f)
			}
		}
		if i == len(recs)-1 && r.chance(40) {
			b.WriteString(pick(r, []string{"", "", "\r", comma, " ", "\""}))
		} else {
			b.WriteString(eol())
		}
	}
	return b.Bytes()
}

func genC13csv(out *caseWriter, seed uint64, n int, _ []string) error {
	for i := 0; i < n; i++ {
		r := newRng(seed, "C13csv", i)
		var c c13csvCfg
		switch {
		case r.chance(70):
			c = pick(r, c13csvImporterCfgs)
		default:
			c = c13csvCfg{comma: pick(r, []int{',', ',', ';', ';', '\t', '|', ' ', ':'}), comment: pick(r, []int{0, 0, 0, '#', '#', ';', '\t'}),
				fpr: pick(r, []int{-1, -1, 0, 0, 1, 2, 3, 4}), lazy: r.chance(50), trim: r.chance(50)}
			if r.chance(12) {
				c.comma = pick(r, []int{'"', '\n', '\r', 0, c.comment})
			} else if r.chance(6) {
				c.comment = pick(r, []int{'"', '\n', '\r', c.comma})
			}
		}
		recs := c13csvRecords(r, c)
		kind := pick(r, []string{"canon", "canon", "canon", "gow", "gow", "gram", "gram", "gram", "gram", "mal", "rand"})
		exp := "-"
		var text []byte
		switch kind {
		case "canon":
			text = c13csvCanon(byte(c.comma), recs)
			if c13csvRoundtrips(c, recs) {
				items := make([]c13aItem, len(recs))
				for k := range recs {
					items[k] = c13aItem{rec: recs[k]}
				}
				exp = c13aEncItems(items)
			}
		case "gow":
			var b bytes.Buffer
			w := csv.NewWriter(&b)
			if c13csvValidDelim(c.comma) {
				w.Comma = rune(c.comma)
			}
			w.UseCRLF = r.chance(40)
			for _, rec := range recs {
				_ = w.Write(rec)
			}
			w.Flush()
			text = b.Bytes()
		case "gram":
			text = c13csvGram(r, c, recs)
		case "mal":
			if r.chance(50) {
				text = c13csvGram(r, c, recs)
			} else {
				text = c13csvCanon(byte(c.comma), recs)
			}
			if len(text) > 0 {
				p := r.intn(len(text))
				switch r.intn(3) {
				case 0:
					text = append(text[:p:p], text[p+1:]...)
				case 1:
					text = append(text[:p:p], append([]byte{'"'}, text[p:]...)...)
				default:
					text = append(text[:p:p], append([]byte(pick(r, []string{"\r", "\n", ",", ";", " "})), text[p:]...)...)
				}
			}
		default:
			alpha := []string{",", ";", "\"", "\"", "\n", "\r", " ", "a", "b", "#", "\t", "\xc2", "\xa0", "\xe2", "\x80", "\x83", "\r\n", "\"\""}
			var b bytes.Buffer
			for k := r.rangeInt(0, 24); k > 0; k-- {
				b.WriteString(pick(r, alpha))
			}
			text = b.Bytes()
		}
		hx := hex.EncodeToString(text)
		if hx == "" {
			hx = "-"
		}
		out.add(fmt.Sprintf("csv-%d", i), "C13.csv", c.enc()+" kind="+kind+" exp="+exp+" | "+hx)
	}
	return nil
}
