package main

// C04 "check accepts exactly the well-formed journals": lifecycle-stressing journals, about
// half of them invalid, through `knut check` (exit status + diagnostic), and a sample of the
// same files through `knut balance` and `knut print` (exit class only).

import (
	"fmt"
	"math/big"
	"sort"
	"strings"
	"time"
)

func init() {
	observers["C04.check"] = obsCheck
	observers["C04.bal"] = func(in string) string {
		return obsClass(in, "balance", "--color=false", "--from", "2000-01-01", "--to", "2099-12-31")
	}
	observers["C04.print"] = func(in string) string { return obsClass(in, "print") }
	gens["C04"] = genC04
	gens["C04x"] = genC04x
}

// obsClass runs a report command on the case's journal and keeps the exit class only.
func obsClass(in string, args ...string) string {
	_, jS := splitInput(in)
	j := DecodeJournal(jS)
	var out string
	withTempDir(func(dir string) {
		f := writeFile(dir, "journal.knut", j.Text())
		out = runKnut(knutBin(), dir, nil, 20*time.Second, append(args, f)...).class()
	})
	return out
}

type lcGen struct {
	r     *rng
	j     Journal
	accs  []string
	coms  []string
	dates []string
	open  map[string]bool
	pos   map[[2]string]*big.Rat
	feats map[string]bool
	// bookkeeping for mutations
	openedOn map[string][]int // account -> day indices of its opens
	closedOn map[string][]int
}

var lcAL = []string{"Assets:Bank", "Assets:Cash", "Liabilities:Card", "Assets:Broker:Acc1"}
var lcOther = []string{"Income:Salary", "Expenses:Food", "Equity:Opening"}

func (g *lcGen) openList() []string {
	var l []string
	for _, a := range g.accs {
		if g.open[a] {
			l = append(l, a)
		}
	}
	return l
}

func (g *lcGen) add(k [2]string, q *big.Rat) {
	if g.pos[k] == nil {
		g.pos[k] = new(big.Rat)
	}
	g.pos[k] = new(big.Rat).Add(g.pos[k], q)
}

// book adds a transaction credit -> debit and tracks the A/L quantities.
func (g *lcGen) book(day int, credit, debit, qty, com string) {
	g.j = append(g.j, Dir{Kind: 'T', Date: g.dates[day], Desc: "t", Bookings: []Booking{{credit, debit, qty, com}}})
	q := rat(qty)
	if isAL(credit) {
		g.add([2]string{credit, com}, new(big.Rat).Neg(q))
	}
	if isAL(debit) {
		g.add([2]string{debit, com}, q)
	}
}

func (g *lcGen) nonzero(a string) [][2]string {
	var ks [][2]string
	for k, v := range g.pos {
		if k[0] == a && v.Sign() != 0 {
			ks = append(ks, k)
		}
	}
	sort.Slice(ks, func(i, j int) bool { return ks[i][1] < ks[j][1] })
	return ks
}

// zero literal in various spellings
func zeroLit(r *rng) string { return pick(r, []string{"0", "0", "0.0", "0.00", "-0", "0.000"}) }

func (g *lcGen) assertedQty(a, c string) string {
	r := g.r
	if !isAL(a) {
		g.feats["nonal-assert"] = true
		if r.chance(40) {
			return zeroLit(r)
		}
		return randAmount(r, false)
	}
	v := g.pos[[2]string{a, c}]
	if v == nil {
		g.feats["zero-untouched"] = true
		return zeroLit(r)
	}
	if v.Sign() == 0 {
		g.feats["zero-touched"] = true
		return zeroLit(r)
	}
	s := ratStr(v, 10)
	if r.chance(25) {
		if strings.Contains(s, ".") {
			s += "00"
		} else {
			s += ".0"
		}
	}
	return s
}

// genLifecycle simulates the checker's rules so that the journal is well-formed by
// construction (for the repaired checker), day by day in the canonical order opens,
// transactions, assertions, closes.
func genLifecycle(r *rng) *lcGen {
	g := &lcGen{r: r, open: map[string]bool{}, pos: map[[2]string]*big.Rat{}, feats: map[string]bool{},
		openedOn: map[string][]int{}, closedOn: map[string][]int{}}
	pa := r.perm(len(lcAL))
	nAL := 1 + r.intn(3)
	for i := 0; i < nAL; i++ {
		g.accs = append(g.accs, lcAL[pa[i]])
	}
	po := r.perm(len(lcOther))
	nOther := r.intn(3)
	for i := 0; i < nOther; i++ {
		g.accs = append(g.accs, lcOther[po[i]])
	}
	if len(g.accs) == 1 {
		g.accs = append(g.accs, lcOther[po[0]])
	}
	g.coms = allComs[:1+r.intn(3)]
	if len(g.coms) > 1 {
		g.feats["multi-commodity"] = true
	}
	nDays := 2 + r.intn(5)
	d := time.Date(2020, 1, 1, 0, 0, 0, 0, time.UTC).AddDate(0, 0, r.intn(300))
	step := 40
	if r.chance(25) {
		// consecutive days across a calendar corner (see genSpan)
		d, _ = genSpan(r, 0, 0)
		for !(d.Month() == 12 && d.Day() >= 27 || d.Month() == 2) {
			d, _ = genSpan(r, 0, 0)
		}
		step = 2
		g.feats["calendar-corner"] = true
	}
	eras := false
	if !g.feats["calendar-corner"] && r.chance(12) {
		// days that lie centuries apart, on both sides of 1677-09-21 and 2262-04-11 (the range of a time.Time's
		// nanosecond count; seeded change C04f-day-order-by-unix-nanoseconds ordered the days by it, so that the days
		// outside that range were checked before / after all others)
		d = pick(r, []time.Time{
			time.Date(1, 1, 1, 0, 0, 0, 0, time.UTC), time.Date(1583, 3, 1, 0, 0, 0, 0, time.UTC),
			time.Date(1677, 9, 19, 0, 0, 0, 0, time.UTC), time.Date(1677, 9, 19, 0, 0, 0, 0, time.UTC),
			time.Date(1969, 12, 30, 0, 0, 0, 0, time.UTC), time.Date(2020, 5, 1, 0, 0, 0, 0, time.UTC),
			time.Date(2262, 4, 9, 0, 0, 0, 0, time.UTC), time.Date(2262, 4, 9, 0, 0, 0, 0, time.UTC)}).AddDate(0, 0, r.intn(3))
		eras = true
		g.feats["eras"] = true
	}
	for i := 0; i < nDays; i++ {
		g.dates = append(g.dates, dateStr(d))
		if eras && r.chance(60) {
			nd := d.AddDate(0, 0, r.rangeInt(2000, 250000))
			if nd.Year() <= 9999 {
				d = nd
				continue
			}
		}
		d = d.AddDate(0, 0, 1+r.intn(step))
	}
	for day := 0; day < nDays; day++ {
		date := g.dates[day]
		openedToday := map[string]bool{}
		// opens
		for _, a := range g.accs {
			p := 30
			if day == 0 {
				p = 75
			}
			if !g.open[a] && r.chance(p) {
				if len(g.closedOn[a]) > 0 {
					g.feats["reopen"] = true
				}
				g.j = append(g.j, Dir{Kind: 'O', Date: date, Acc: a})
				g.open[a] = true
				openedToday[a] = true
				g.openedOn[a] = append(g.openedOn[a], day)
			}
		}
		ol := g.openList()
		// transactions
		used := map[string]bool{}
		if len(ol) >= 2 {
			for k := r.intn(5); k > 0; k-- {
				c := pick(r, ol)
				db := pick(r, ol)
				for db == c {
					db = pick(r, ol)
				}
				g.book(day, c, db, randAmount(r, r.chance(20)), pick(r, g.coms))
				used[c], used[db] = true, true
			}
		}
		// flatten some A/L accounts so that they can be closed today
		toClose := map[string]bool{}
		if len(ol) >= 2 {
			for _, a := range ol {
				if isAL(a) && r.chance(30) {
					for _, k := range g.nonzero(a) {
						other := pick(r, ol)
						for other == a {
							other = pick(r, ol)
						}
						v := g.pos[k]
						if v.Sign() > 0 {
							g.book(day, a, other, ratStr(v, 12), k[1])
						} else {
							g.book(day, other, a, ratStr(new(big.Rat).Neg(v), 12), k[1])
						}
						used[a], used[other] = true, true
					}
					toClose[a] = true
				}
			}
		}
		// assertions (evaluated after all transactions of the day)
		if len(ol) > 0 {
			for k := r.intn(3); k > 0; k-- {
				n := 1
				if r.chance(40) {
					n = 2 + r.intn(2)
					g.feats["multi-line"] = true
				}
				dd := Dir{Kind: 'A', Date: date}
				for i := 0; i < n; i++ {
					a := pick(r, ol)
					c := pick(r, g.coms)
					dd.Bals = append(dd.Bals, Bal{a, g.assertedQty(a, c), c})
					used[a] = true
				}
				g.j = append(g.j, dd)
			}
		}
		// closes
		for _, a := range ol {
			cl := toClose[a] && len(g.nonzero(a)) == 0 && r.chance(70)
			if !cl && !isAL(a) && r.chance(12) {
				cl = true
			}
			if !cl && isAL(a) && len(g.nonzero(a)) == 0 && r.chance(10) {
				cl = true
			}
			if cl {
				g.j = append(g.j, Dir{Kind: 'C', Date: date, Acc: a})
				g.open[a] = false
				g.closedOn[a] = append(g.closedOn[a], day)
				for k := range g.pos {
					if k[0] == a {
						delete(g.pos, k)
					}
				}
				if openedToday[a] && used[a] {
					g.feats["same-day"] = true
				}
			}
		}
	}
	return g
}

// bump changes a decimal literal by one unit in its last place.
func bump(r *rng, s string) string {
	v := rat(s)
	places := 0
	if i := strings.Index(s, "."); i >= 0 {
		places = len(s) - i - 1
	}
	unit := new(big.Rat).SetFrac(big.NewInt(1), new(big.Int).Exp(big.NewInt(10), big.NewInt(int64(places)), nil))
	if r.chance(50) {
		unit.Neg(unit)
	}
	return new(big.Rat).Add(v, unit).FloatString(places)
}

// mutate tries to make the journal ill-formed in the named way; reports whether it applied.
func mutateC04(r *rng, g *lcGen, kind string) bool {
	last := len(g.dates) - 1
	switch kind {
	case "close-nonzero":
		for _, a := range g.accs {
			if g.open[a] && isAL(a) && len(g.nonzero(a)) > 0 {
				g.j = append(g.j, Dir{Kind: 'C', Date: g.dates[last], Acc: a})
				return true
			}
		}
	case "use-after-close":
		for _, a := range g.accs {
			for _, cd := range g.closedOn[a] {
				// a transaction on the close day + 1 (a new date or an existing one): the account
				// is closed then unless it is reopened on that very day
				t, _ := time.Parse("2006-01-02", g.dates[cd])
				other := g.accs[0]
				if other == a {
					other = g.accs[1]
				}
				g.j = append(g.j, Dir{Kind: 'T', Date: dateStr(t.AddDate(0, 0, 1)), Desc: "late", Bookings: []Booking{{a, other, "1", g.coms[0]}}})
				return true
			}
		}
	case "double-open":
		for _, a := range g.accs {
			if len(g.openedOn[a]) > 0 {
				od := g.openedOn[a][0]
				day := od
				if len(g.closedOn[a]) == 0 || g.closedOn[a][0] > od {
					// open until (at least) the close day: any day in between, including the same day
					hi := last
					if len(g.closedOn[a]) > 0 {
						hi = g.closedOn[a][0]
					}
					day = od + r.intn(hi-od+1)
				}
				g.j = append(g.j, Dir{Kind: 'O', Date: g.dates[day], Acc: a})
				return true
			}
		}
	case "missing-open":
		var idx []int
		for i, d := range g.j {
			if d.Kind == 'O' {
				idx = append(idx, i)
			}
		}
		if len(idx) > 0 {
			i := pick(r, idx)
			g.j = append(g.j[:i:i], g.j[i+1:]...)
			return true
		}
	case "wrong-assert":
		var idx [][2]int
		for i, d := range g.j {
			if d.Kind == 'A' {
				for k, b := range d.Bals {
					if isAL(b.Acc) {
						idx = append(idx, [2]int{i, k})
					}
				}
			}
		}
		if len(idx) > 0 {
			p := pick(r, idx)
			bals := append([]Bal(nil), g.j[p[0]].Bals...)
			bals[p[1]].Qty = bump(r, bals[p[1]].Qty)
			g.j[p[0]].Bals = bals
			return true
		}
	case "assert-not-open":
		for _, a := range g.accs {
			if len(g.closedOn[a]) > 0 || len(g.openedOn[a]) == 0 {
				date := "2019-06-01" // before everything
				if len(g.closedOn[a]) > 0 {
					t, _ := time.Parse("2006-01-02", g.dates[g.closedOn[a][0]])
					date = dateStr(t.AddDate(0, 0, 1))
				}
				g.j = append(g.j, Dir{Kind: 'A', Date: date, Bals: []Bal{{a, "0", g.coms[0]}}})
				return true
			}
		}
	case "close-not-open":
		for _, a := range g.accs {
			if !g.open[a] {
				t, _ := time.Parse("2006-01-02", g.dates[last])
				g.j = append(g.j, Dir{Kind: 'C', Date: dateStr(t.AddDate(0, 0, 1+r.intn(3))), Acc: a})
				return true
			}
		}
		g.j = append(g.j, Dir{Kind: 'C', Date: g.dates[0], Acc: "Assets:Never"})
		return true
	case "reopen-same-day":
		// close and open on one day: opens come first, so the open hits an open account
		for _, a := range g.accs {
			for _, cd := range g.closedOn[a] {
				g.j = append(g.j, Dir{Kind: 'O', Date: g.dates[cd], Acc: a})
				return true
			}
		}
	}
	return false
}

var c04Mutations = []string{"close-nonzero", "use-after-close", "double-open", "missing-open", "wrong-assert",
	"assert-not-open", "close-not-open", "reopen-same-day"}

// targeted minimal constructions (each is well-formed)
func targetedC04(r *rng, which int) (Journal, string) {
	al := pick(r, lcAL)
	other := pick(r, lcOther)
	c := pick(r, allComs[:3])
	d0 := time.Date(2021, 3, 1, 0, 0, 0, 0, time.UTC).AddDate(0, 0, r.intn(200))
	day := func(n int) string { return dateStr(d0.AddDate(0, 0, n)) }
	q := randAmount(r, false)
	for rat(q).Sign() == 0 {
		q = randAmount(r, false)
	}
	switch which {
	case 0: // zero assertion on a position that was never booked
		return Journal{{Kind: 'O', Date: day(0), Acc: al}, {Kind: 'A', Date: day(r.intn(3)), Bals: []Bal{{al, zeroLit(r), c}}}}, "zero-untouched"
	case 1: // assertion on an income/expense/equity account
		amt := zeroLit(r)
		if r.chance(50) {
			amt = randAmount(r, false)
		}
		return Journal{{Kind: 'O', Date: day(0), Acc: other}, {Kind: 'A', Date: day(r.intn(3)), Bals: []Bal{{other, amt, c}}}}, "nonal-assert"
	case 2: // same-day open/use/assert/close
		neg := ratStr(new(big.Rat).Neg(rat(q)), 12)
		return Journal{{Kind: 'C', Date: day(0), Acc: al},
			{Kind: 'A', Date: day(0), Bals: []Bal{{al, zeroLit(r), c}}},
			{Kind: 'T', Date: day(0), Desc: "in", Bookings: []Booking{{other, al, q, c}}},
			{Kind: 'T', Date: day(0), Desc: "out", Bookings: []Booking{{other, al, neg, c}}},
			{Kind: 'O', Date: day(0), Acc: al}, {Kind: 'O', Date: day(0), Acc: other}}, "same-day"
	case 3: // reopen after close, zero assertion after the reopen on the position that was deleted
		return Journal{{Kind: 'O', Date: day(0), Acc: al}, {Kind: 'O', Date: day(0), Acc: other},
			{Kind: 'T', Date: day(1), Desc: "in", Bookings: []Booking{{other, al, q, c}}},
			{Kind: 'T', Date: day(2), Desc: "out", Bookings: []Booking{{al, other, q, c}}},
			{Kind: 'C', Date: day(2), Acc: al}, {Kind: 'O', Date: day(4), Acc: al},
			{Kind: 'A', Date: day(4 + r.intn(2)), Bals: []Bal{{al, zeroLit(r), c}}}}, "reopen"
	case 5, 6: // an accrual whose expense account or accrual account is closed inside, at the end of or after the
		// accrual window: the instalments are bookings like any other and must hit open accounts - also the ones
		// that round to zero (amount / periods < 0.1; seeded change C04c-skip-zero-instalments dropped those and
		// accepted journals whose closed account still had instalments due; C04 had no accruals at all before)
		accr := "Assets:Accrued"
		iv := pick(r, []string{"monthly", "weekly", "quarterly", "daily"})
		s0 := r.intn(20)
		span := r.rangeInt(40, 400)
		if iv == "daily" {
			span = r.rangeInt(2, 25)
		}
		amount := pick(r, []string{"0.05", "0.3", "1", "0.9", "12", q, q})
		closeDay := s0 + r.rangeInt(-3, span+40)
		if r.chance(30) {
			closeDay = s0 + span + r.rangeInt(0, 3) // at or just after the window end
		}
		closed := other
		if r.chance(35) {
			closed = accr
		}
		j := Journal{{Kind: 'O', Date: day(0), Acc: al}, {Kind: 'O', Date: day(0), Acc: other}, {Kind: 'O', Date: day(0), Acc: accr},
			{Kind: 'T', Date: day(r.intn(s0 + 1)), Desc: "premium", Bookings: []Booking{{al, other, amount, c}},
				Accrual: &Accrual{iv, day(s0), day(s0 + span), accr}},
			{Kind: 'C', Date: day(closeDay), Acc: closed}}
		if other == accr || al == accr {
			return j[:3], "accrual"
		}
		return j, "accrual"
	default: // assertion on a non-A/L account stating its true (negated) turnover
		neg := ratStr(new(big.Rat).Neg(rat(q)), 12)
		return Journal{{Kind: 'O', Date: day(0), Acc: al}, {Kind: 'O', Date: day(0), Acc: other},
			{Kind: 'T', Date: day(1), Desc: "in", Bookings: []Booking{{other, al, q, c}}},
			{Kind: 'A', Date: day(1), Bals: []Bal{{al, q, c}, {other, neg, c}}}}, "nonal-assert"
	}
}

func featList(m map[string]bool) string {
	var l []string
	for k := range m {
		l = append(l, k)
	}
	sort.Strings(l)
	if len(l) == 0 {
		return "-"
	}
	return strings.Join(l, ",")
}

// genC04: per index one journal -> one C04.check case; every 4th also C04.bal, every 8th C04.print.
func genC04(out *caseWriter, seed uint64, n int, args []string) error {
	var items []caseIn
	for i := 0; i < n; i++ {
		r := newRng(seed, "C04", i)
		var j Journal
		cls, mut, feats := "lifecycle", "-", "-"
		switch {
		case i%10 == 9 || i%10 == 4: // targeted minimal constructions
			var f string
			j, f = targetedC04(r, r.intn(7))
			cls, feats = "targeted", f
		case i%10 == 8: // a larger journal from the shared generator, half of them mutated
			o := defaultOpts(r)
			o.accruals, o.perf, o.prices, o.assertions, o.closes = false, false, r.chance(50), true, true
			o.nTxn = r.rangeInt(3, 12)
			j = genJournal(r, o)
			cls = "gen"
			if r.chance(50) {
				g := &lcGen{r: r, j: j, coms: o.commodities}
				mut = pick(r, []string{"missing-open", "wrong-assert"})
				if !mutateC04(r, g, mut) {
					mut = "-"
				}
				j = g.j
			}
		default:
			g := genLifecycle(r)
			if r.chance(55) {
				start := r.intn(len(c04Mutations))
				for k := 0; k < len(c04Mutations); k++ {
					m := c04Mutations[(start+k)%len(c04Mutations)]
					if mutateC04(r, g, m) {
						mut = m
						break
					}
				}
			}
			j = g.j
			feats = featList(g.feats)
		}
		r.shuffle(len(j), func(a, b int) { j[a], j[b] = j[b], j[a] })
		in := fmt.Sprintf("cls=%s mut=%s feats=%s | %s", cls, mut, feats, j.Enc())
		items = append(items, caseIn{fmt.Sprintf("C04-%d-%d", seed, i), "C04.check", in})
		// (the targeted constructions are i%10 == 9: they go through check only, so that the
		// shortest failing cases of a run are check cases with their diagnostic)
		if i%4 == 0 {
			items = append(items, caseIn{fmt.Sprintf("C04-%d-%d-bal", seed, i), "C04.bal", in})
		}
		if i%8 == 1 && cls != "targeted" {
			items = append(items, caseIn{fmt.Sprintf("C04-%d-%d-print", seed, i), "C04.print", in})
		}
	}
	out.addBatch(items)
	return nil
}

// genC04x: exhaustive small space.  All journals (as multisets of directives: the input order
// is irrelevant to knut, C04_order_irrelevant) with at most maxLen directives
// over 2 accounts (Assets:A, Income:I), 1 commodity, 3 days, amounts {0, 1, -1}.
// args: maxLen shard nshards
func genC04x(out *caseWriter, seed uint64, n int, args []string) error {
	maxLen, shard, nshards := 5, 0, 1
	if len(args) >= 3 {
		fmt.Sscanf(args[0], "%d", &maxLen)
		fmt.Sscanf(args[1], "%d", &shard)
		fmt.Sscanf(args[2], "%d", &nshards)
	}
	days := []string{"2020-01-01", "2020-01-02", "2020-01-03"}
	accs := []string{"Assets:A", "Income:I"}
	amts := []string{"0", "1", "-1"}
	var alphabet []Dir
	for _, d := range days {
		for _, a := range accs {
			alphabet = append(alphabet, Dir{Kind: 'O', Date: d, Acc: a})
			alphabet = append(alphabet, Dir{Kind: 'C', Date: d, Acc: a})
			for _, q := range amts {
				alphabet = append(alphabet, Dir{Kind: 'A', Date: d, Bals: []Bal{{a, q, "CHF"}}})
			}
		}
		for _, q := range amts {
			alphabet = append(alphabet, Dir{Kind: 'T', Date: d, Desc: "t", Bookings: []Booking{{"Income:I", "Assets:A", q, "CHF"}}})
		}
	}
	count := 0
	var items []caseIn
	flush := func() {
		if len(items) > 0 {
			out.addBatch(items)
			items = items[:0]
		}
	}
	var rec func(start int, cur []int)
	rec = func(start int, cur []int) {
		if len(cur) > 0 {
			if count%nshards == shard && (n <= 0 || count/nshards < n) {
				j := make(Journal, len(cur))
				var id strings.Builder
				for i, k := range cur {
					j[i] = alphabet[k]
					fmt.Fprintf(&id, ".%d", k)
				}
				items = append(items, caseIn{"C04x" + id.String(), "C04.check", "cls=exhaustive mut=- feats=- | " + j.Enc()})
				if len(items) >= 4000 {
					flush()
				}
			}
			count++
		}
		if len(cur) == maxLen {
			return
		}
		for k := start; k < len(alphabet); k++ {
			rec(k, append(cur, k))
		}
	}
	rec(0, nil)
	flush()
	return nil
}
