package main

// C04.write: `knut check --write FILE` (Checker.Write: one assertion per day with every running
// position, printed by journal.Print).  Observed: "OK <escaped stdout>" | "ERR" (exit 1, empty
// stdout) | "ERR+OUT <stdout>" | PANIC.. | HANG.  The journals are the life-cycle journals of
// c04.go (valid and invalid), its targeted constructions, and journals of the shared generator
// (prices -> days without bookings, accruals, many decimals, Unicode names).

import (
	"fmt"
	"time"
)

func init() {
	observers["C04.write"] = obsCheckWrite
	gens["C04w"] = genC04w
}

func obsCheckWrite(in string) string {
	_, jS := splitInput(in)
	j := DecodeJournal(jS)
	var out string
	withTempDir(func(dir string) {
		f := writeFile(dir, "journal.knut", j.Text())
		out = renderRun(runKnut(knutBin(), dir, nil, 20*time.Second, "check", "--write", f))
	})
	return out
}

// c04wJournal: one journal per index; about a quarter of them ill-formed.
func c04wJournal(r *rng, i int) (j Journal, cls, mut, feats string) {
	cls, mut, feats = "lifecycle", "-", "-"
	switch {
	case i%10 == 9 || i%10 == 4:
		var f string
		j, f = targetedC04(r, r.intn(7))
		cls, feats = "targeted", f
	case i%10 == 8 || i%10 == 3 || i%10 == 6:
		o := defaultOpts(r)
		o.assertions, o.closes = r.chance(60), r.chance(60)
		if r.chance(40) {
			o.nTxn = r.rangeInt(1, 6)
		}
		j = genJournal(r, o)
		cls = "gen"
		if r.chance(25) {
			g := &lcGen{r: r, j: j, coms: o.commodities}
			mut = pick(r, []string{"missing-open", "wrong-assert"})
			if !mutateC04(r, g, mut) {
				mut = "-"
			}
			j = g.j
		}
	default:
		g := genLifecycle(r)
		if r.chance(30) {
			start := r.intn(len(c04Mutations))
			for k := 0; k < len(c04Mutations); k++ {
				m := c04Mutations[(start+k)%len(c04Mutations)]
				if mutateC04(r, g, m) {
					mut = m
					break
				}
			}
		}
		if r.chance(30) && len(g.dates) > 0 {
			// a day that has a price and nothing else: the checker still sees it (DayEnd runs on every day)
			t, _ := time.Parse("2006-01-02", g.dates[r.intn(len(g.dates))])
			g.j = append(g.j, Dir{Kind: 'P', Date: dateStr(t.AddDate(0, 0, 1)), Com: "USD", Price: "1.1", Target: "CHF"})
			g.feats["price-only-day"] = true
		}
		j = g.j
		feats = featList(g.feats)
	}
	r.shuffle(len(j), func(a, b int) { j[a], j[b] = j[b], j[a] })
	return
}

func genC04w(out *caseWriter, seed uint64, n int, args []string) error {
	var items []caseIn
	for i := 0; i < n; i++ {
		r := newRng(seed, "C04w", i)
		j, cls, mut, feats := c04wJournal(r, i)
		in := fmt.Sprintf("cls=%s mut=%s feats=%s | %s", cls, mut, feats, j.Enc())
		items = append(items, caseIn{fmt.Sprintf("C04w-%d-%d", seed, i), "C04.write", in})
	}
	out.addBatch(items)
	return nil
}
