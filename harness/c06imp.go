package main

// C06 for the commands the journal-based repeat harness (c05.go, op C06.repeat) does not reach:
// `knut import <importer>` on generated statements of all eleven formats, `knut infer` and
// `knut check --write`.  Each case is run several times under schedule perturbation and with
// different GOMAXPROCS; all runs must give the same stdout bytes and exit class.
//
// op C06.import  input = "<importer> <runs> <sched seed> | <the C13 case input of that importer>"
// op C06.cmd     input = "<infer|checkwrite> <runs> <sched seed> | <training journal> ## <target journal>"   (infer)
//                        "<checkwrite> <runs> <sched seed> | <journal>"
// observed = "<class> <hash of stdout> | runs=same"  or  "... | diff run=<i> ..."   (judged like C06.repeat)

import (
	"encoding/hex"
	"fmt"
	"os"
	"strings"
	"time"
)

func init() {
	gens["C06imp"] = genC06Imp
	observers["C06.import"] = obsC06Import
	observers["C06.cmd"] = obsC06Cmd
}

func c06Repeat(dir string, runs int, lseed uint64, args []string) string {
	var first runResult
	verdict := "runs=same"
	for i := 0; i < runs; i++ {
		env := []string{fmt.Sprintf("KNUT_VERIF_SCHED=%d", lseed*131+uint64(i)), fmt.Sprintf("GOMAXPROCS=%d", []int{1, 2, 16}[i%3])}
		x := runKnut(knutBin(), dir, env, 20*time.Second, args...)
		if i == 0 {
			first = x
			continue
		}
		if x.class() != first.class() || x.Stdout != first.Stdout {
			verdict = fmt.Sprintf("diff run=%d class %s/%s first=%s this=%s", i, first.class(), x.class(), esc(firstDiff(first.Stdout, x.Stdout)), "")
			break
		}
	}
	return fmt.Sprintf("%s %s | %s", first.class(), shortHash(first.Stdout), verdict)
}

func obsC06Import(in string) string {
	k := strings.Index(in, " | ")
	var imp string
	var runs int
	var lseed uint64
	fmt.Sscanf(in[:k], "%s %d %d", &imp, &runs, &lseed)
	rest := in[k+3:]
	var out string
	withTempDir(func(dir string) {
		var args []string
		if _, ok := c13aGenFuncs[imp]; ok {
			c := c13aDecode(rest)
			f := writeFileBytes(dir, "statement.dat", c.file)
			args = []string{"import", c13aUse[imp]}
			if c.hasAcct {
				if imp == "viac" {
					args = append(args, "--commodity", c.acct)
				} else {
					args = append(args, "--account", c.acct)
				}
			}
			if c.hasFrom {
				args = append(args, "--from", c.from)
			}
			args = append(args, f)
		} else {
			c := c13bDecode(rest)
			f := writeFileBytes(dir, "statement.csv", c.file)
			args = []string{"import", c13bUse[imp]}
			for _, k := range c13bFlagNames {
				if v, ok := c.flags[k]; ok {
					args = append(args, c13bFlagOpt[k], v)
				}
			}
			args = append(args, f)
		}
		out = c06Repeat(dir, runs, lseed, args)
	})
	return out
}

func obsC06Cmd(in string) string {
	k := strings.Index(in, " | ")
	var cmd string
	var runs int
	var lseed uint64
	fmt.Sscanf(in[:k], "%s %d %d", &cmd, &runs, &lseed)
	rest := in[k+3:]
	var out string
	withTempDir(func(dir string) {
		switch cmd {
		case "infer":
			p := strings.SplitN(rest, " ## ", 2)
			// the training journal is spread over an include tree (files arrive at the trainer in scheduling order;
			// seeded change C06b-infer-first-seen-tiebreak resolved ties by first appearance and was missed with
			// one training file)
			trj := DecodeJournal(p[0])
			lr := newRng(lseed, "C06infer", 0)
			os.MkdirAll(dir+"/tr", 0o755)
			tr := writeLayout(dir+"/tr", trj, genLayout(lr, len(trj), 4), lr)
			tg := writeFile(dir, "target.knut", DecodeJournal(p[1]).Text())
			out = c06Repeat(dir, runs, lseed, []string{"infer", "-t", tr, tg})
		case "rawimport":
			// rest = "<importer and flags> ## <hex of the statement file>"
			p := strings.SplitN(rest, " ## ", 2)
			data, _ := hex.DecodeString(p[1])
			f := writeFileBytes(dir, "statement.csv", data)
			out = c06Repeat(dir, runs, lseed, append(append([]string{"import"}, strings.Fields(p[0])...), f))
		case "checkwrite":
			f := writeFile(dir, "journal.knut", DecodeJournal(rest).Text())
			out = c06Repeat(dir, runs, lseed, []string{"check", "--write", f})
		case "graph":
			// rest = "<expected class or -> <knut command> ## name|content|name|content..." : an include GRAPH (files
			// included from several places, cycles reachable over several routes), first file = root
			p := strings.SplitN(rest, " ## ", 2)
			hd := strings.Fields(p[0])
			parts := strings.Split(p[1], "|")
			root := ""
			for i := 0; i+1 < len(parts); i += 2 {
				f := writeFile(dir, vunesc(parts[i]), vunesc(parts[i+1]))
				if i == 0 {
					root = f
				}
			}
			argv, named := []string{}, false
			for _, a := range hd[1:] {
				if strings.HasPrefix(a, "@") { // a file of the case named in the command line
					a, named = dir+"/"+a[1:], true
				}
				argv = append(argv, a)
			}
			if !named {
				argv = append(argv, root)
			}
			out = c06Repeat(dir, runs, lseed, argv)
			if hd[0] != "-" && !strings.HasPrefix(out, hd[0]+" ") {
				out = strings.Replace(out, "runs=same", "diff expected class "+hd[0], 1)
			}
		}
	})
	return out
}

// genC06Imp: n cases: statements of every importer in turn (well-formed; several currencies and days so that
// per-day / per-currency maps have more than one entry), infer with tie-rich training data (equal token counts
// for several accounts), check --write on journals with many positions.
func genC06Imp(out *caseWriter, seed uint64, n int, _ []string) error {
	var items []caseIn
	imps := append(append([]string{}, c13aImporters...), c13bImporters...)
	for i := 0; i < n; i++ {
		r := newRng(seed, "C06imp", i)
		ls := r.next() % 1000000
		switch {
		case i%10 == 2:
			// include graphs that are not trees: a file included from two places (its directives are loaded once per
			// include: C05_layout), cycles that can be entered over two routes (always an error: C14_cycle_is_error),
			// run 16 times each.  Seeded change C06c-load-once-set kept a global set of loaded files: which of two
			// racing parsers claimed a file decided between "include cycle" and a full report, and a file included
			// twice was booked once.
			txn := func(d int, desc, a, b string, q int) string {
				return fmt.Sprintf("2021-03-%02d \"%s\"\n%s %s %d CHF\n\n", d, desc, a, b, q)
			}
			opens := "2021-01-01 open Assets:Bank\n2021-01-01 open Expenses:Food\n2021-01-01 open Income:Salary\n2021-01-01 open Equity:Opening\n\n"
			var fs []string
			add := func(name, content string) { fs = append(fs, vesc(name), vesc(content)) }
			expect := "-"
			cmd := pick(r, []string{"balance --color=false", "print", "check", "balance --csv --months"})
			switch shape := r.intn(8); shape {
			case 6, 7: // infer: a training journal of several files, one of which cannot be loaded
				// (a syntax error, or an include of a file that does not exist).  The command fails, on every run:
				// the files that happened to be parsed before the failure must not decide anything (seeded changes
				// C06f-infer-trains-on-partial-journal and C15f-infer-ignores-missing-training-file went on with
				// whatever part of the training data had arrived)
				nfiles := r.rangeInt(4, 9)
				root := opens + "2021-01-01 open Expenses:Household\n2021-01-01 open Expenses:Office\n2021-01-01 open Expenses:Various\n2021-01-01 open Expenses:TBD\n\n"
				exps := []string{"Expenses:Food", "Expenses:Household", "Expenses:Office", "Expenses:Various"}
				bad := r.intn(nfiles)
				for f := 0; f < nfiles; f++ {
					root += fmt.Sprintf("include \"y/y%d.knut\"\n", 2015+f)
					var b strings.Builder
					for k, nt := 0, r.rangeInt(1, 40); k < nt; k++ {
						b.WriteString(txn(1+(k+f)%28, "Migros Bern "+pick(r, []string{"Card", "Twint", "", "Online"}), "Assets:Bank", exps[f%len(exps)], r.rangeInt(1, 90)))
					}
					if f == bad {
						if shape == 6 {
							b.WriteString("2021-03-09 \"broken\nAssets:Bank Expenses:Food 1 CHF\n\n")
						} else {
							b.WriteString("include \"missing.knut\"\n")
						}
						b.WriteString(txn(28, "Migros Bern", "Assets:Bank", exps[(f+1)%len(exps)], 3))
					}
					add(fmt.Sprintf("y/y%d.knut", 2015+f), b.String())
				}
				fs = append([]string{vesc("root.knut"), vesc(root)}, fs...)
				add("target.knut", txn(12, "Migros Bern Card", "Assets:Bank", "Expenses:TBD", r.rangeInt(1, 90))+txn(13, "Migros Bern", "Assets:Bank", "Expenses:TBD", 5))
				cmd = "infer -t @root.knut @target.knut"
				expect = "ERR"
			case 5: // many files that all use the same, otherwise unknown, commodities first (registries filled concurrently)
				nfiles, ncom := r.rangeInt(8, 16), r.rangeInt(20, 60)
				root := opens
				for f := 0; f < nfiles; f++ {
					root += fmt.Sprintf("include \"w/f%d.knut\"\n", f)
					var b strings.Builder
					for c := 0; c < ncom; c++ {
						fmt.Fprintf(&b, "2021-03-%02d \"buy\"\nEquity:Opening Assets:Bank %d ISIN%04d\n\n", 1+(c+f)%28, 1+f+c, c)
					}
					add(fmt.Sprintf("w/f%d.knut", f), b.String())
				}
				fs = append([]string{vesc("root.knut"), vesc(root)}, fs...)
				expect = "OK"
			case 0: // diamond: root -> a, b; a -> c; b -> c
				add("root.knut", opens+"include \"a.knut\"\ninclude \"b.knut\"\n"+txn(1, "r", "Equity:Opening", "Assets:Bank", 1000))
				add("a.knut", "include \"sub/c.knut\"\n"+txn(2, "a", "Income:Salary", "Assets:Bank", r.rangeInt(1, 500)))
				add("b.knut", txn(3, "b", "Assets:Bank", "Expenses:Food", r.rangeInt(1, 50))+"include \"sub/c.knut\"\n")
				add("sub/c.knut", txn(4, "c", "Assets:Bank", "Expenses:Food", r.rangeInt(1, 50))+txn(5, "c2", "Income:Salary", "Assets:Bank", 7))
				expect = "OK"
			case 1: // a file included twice by the same file and once more below
				add("root.knut", opens+"include \"c.knut\"\ninclude \"a.knut\"\ninclude \"c.knut\"\n")
				add("a.knut", "include \"c.knut\"\n"+txn(2, "a", "Income:Salary", "Assets:Bank", r.rangeInt(1, 500)))
				add("c.knut", txn(4, "c", "Assets:Bank", "Expenses:Food", r.rangeInt(1, 50)))
				expect = "OK"
			case 2: // two files that include each other, both reachable from the root
				add("root.knut", opens+"include \"a.knut\"\ninclude \"b.knut\"\n"+txn(1, "r", "Equity:Opening", "Assets:Bank", 1000))
				add("a.knut", txn(2, "a", "Income:Salary", "Assets:Bank", r.rangeInt(1, 500))+"include \"b.knut\"\n")
				add("b.knut", "include \"a.knut\"\n"+txn(3, "b", "Assets:Bank", "Expenses:Food", r.rangeInt(1, 50)))
				expect = "ERR"
			case 3: // a longer cycle a -> c -> b -> a entered at a and at b, with padding so that parse times differ
				pad := strings.Repeat(txn(6, "pad", "Assets:Bank", "Expenses:Food", 1), r.rangeInt(0, 200))
				add("root.knut", opens+"include \"a.knut\"\n"+pad+"include \"b.knut\"\n")
				add("a.knut", txn(2, "a", "Income:Salary", "Assets:Bank", 5)+"include \"c.knut\"\n")
				add("c.knut", strings.Repeat(txn(7, "c", "Assets:Bank", "Expenses:Food", 2), r.rangeInt(0, 200))+"include \"b.knut\"\n")
				add("b.knut", "include \"a.knut\"\n"+txn(3, "b", "Assets:Bank", "Expenses:Food", 3))
				expect = "ERR"
			default: // a cycle below a diamond
				add("root.knut", opens+"include \"a.knut\"\ninclude \"b.knut\"\n")
				add("a.knut", "include \"c.knut\"\n"+txn(2, "a", "Income:Salary", "Assets:Bank", 5))
				add("b.knut", "include \"c.knut\"\n"+txn(3, "b", "Assets:Bank", "Expenses:Food", 3))
				add("c.knut", txn(4, "c", "Assets:Bank", "Expenses:Food", 1)+"include \"d.knut\"\n")
				add("d.knut", "include \"c.knut\"\n")
				expect = "ERR"
			}
			items = append(items, caseIn{fmt.Sprintf("C06imp-%d-%d", seed, i), "C06.cmd",
				fmt.Sprintf("graph 16 %d | %s %s ## %s", ls, expect, cmd, strings.Join(fs, "|"))})
		case i%10 == 7:
			// revolut2 with several currencies completed on the same days: one balance assertion per (day,
			// currency), several per day (the C13 generator keeps to one currency per day)
			var b strings.Builder
			b.WriteString("Type,Product,Started Date,Completed Date,Description,Amount,Fee,Currency,State,Balance\n")
			curs := []string{"CHF", "EUR", "USD", "GBP", "AUD", "NZD"}[:r.rangeInt(2, 6)]
			bal := map[string]int{}
			day := time.Date(2021, 3, 1, 0, 0, 0, 0, time.UTC)
			for q := 0; q < r.rangeInt(3, 12); q++ {
				if r.chance(40) {
					day = day.AddDate(0, 0, 1)
				}
				c := pick(r, curs)
				a := r.rangeInt(-5000, 9000)
				bal[c] += a
				ts := day.Format("2006-01-02") + fmt.Sprintf(" %02d:%02d:00", 8+q%10, q)
				fmt.Fprintf(&b, "CARD_PAYMENT,Current,%s,%s,Shop %d,%d.%02d,0.00,%s,COMPLETED,%d.%02d\n", ts, ts, q, a/100, abs(a)%100, c, bal[c]/100, abs(bal[c])%100)
			}
			items = append(items, caseIn{fmt.Sprintf("C06imp-%d-%d", seed, i), "C06.cmd",
				fmt.Sprintf("rawimport 8 %d | revolut2 --account Assets:Revolut --fee Expenses:Fees ## %s", ls, hex.EncodeToString([]byte(b.String())))})
		case i%5 < 3:
			imp := imps[(i/5*3+i%5)%len(imps)]
			var enc string
			if g, ok := c13aGenFuncs[imp]; ok {
				c := g(r, "")
				c.kind = "wf"
				enc = c.enc()
			} else {
				c := c13bGenFuncs[imp](r, "")
				c.kind = "wf"
				enc = c.enc()
			}
			items = append(items, caseIn{fmt.Sprintf("C06imp-%d-%d", seed, i), "C06.import", fmt.Sprintf("%s 6 %d | %s", imp, ls, enc)})
		case i%5 == 3:
			// infer: k accounts trained with the same description (equal scores), placeholder on one or both sides
			accs := []string{"Expenses:Groceries", "Expenses:Rent", "Expenses:Fees", "Expenses:Zoo", "Expenses:Alpha"}
			r.shuffle(len(accs), func(a, b int) { accs[a], accs[b] = accs[b], accs[a] })
			k := r.rangeInt(2, 4)
			var tr Journal
			tr = append(tr, Dir{Kind: 'O', Date: "2020-01-01", Acc: "Assets:Bank"})
			for _, a := range accs[:k] {
				tr = append(tr, Dir{Kind: 'O', Date: "2020-01-01", Acc: a})
				tr = append(tr, Dir{Kind: 'T', Date: "2020-01-05", Desc: pick(r, []string{"Migros", "Shop", "Misc thing"}), Bookings: []Booking{{"Assets:Bank", a, "10", "CHF"}}})
			}
			r.shuffle(len(tr), func(a, b int) { tr[a], tr[b] = tr[b], tr[a] })
			var tg Journal
			for q := 0; q < r.rangeInt(1, 4); q++ {
				b := Booking{"Assets:Bank", "Expenses:TBD", "5", "CHF"}
				if r.chance(30) {
					b = Booking{"Expenses:TBD", "Expenses:TBD", "5", "CHF"}
				}
				tg = append(tg, Dir{Kind: 'T', Date: "2020-02-0" + fmt.Sprint(1+q), Desc: pick(r, []string{"Migros", "Shop", "Misc thing", "Other"}), Bookings: []Booking{b}})
			}
			items = append(items, caseIn{fmt.Sprintf("C06imp-%d-%d", seed, i), "C06.cmd", fmt.Sprintf("infer 8 %d | %s ## %s", ls, tr.Enc(), tg.Enc())})
		default:
			o := defaultOpts(r)
			o.accruals = false
			j := genJournal(r, o)
			items = append(items, caseIn{fmt.Sprintf("C06imp-%d-%d", seed, i), "C06.cmd", fmt.Sprintf("checkwrite 6 %d | %s", ls, j.Enc())})
		}
	}
	out.addBatch(items)
	return nil
}
