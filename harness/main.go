// Command verifharness runs the implementation side of the correspondence checks.
// It is compiled into knut's module through `go build -overlay` (see /verif/lib/build.py), so
// it sees exactly the sources of /repo's working tree and needs no go.mod of its own.
package main

import (
	"bufio"
	"fmt"
	"os"
	"strconv"
	"strings"
	"sync"
)

// A generator produces inputs (op, input); an observer runs the implementation on one input
// and renders what it did.  Replay is "observe again": `verifharness replay` reads
// "id \t op \t input" lines and prints them with fresh observations.
type genFunc func(out *caseWriter, seed uint64, n int, args []string) error
type obsFunc func(input string) string

var gens = map[string]genFunc{}
var observers = map[string]obsFunc{}

// subcommands are helper modes of the binary itself (e.g. `verifharness rlimit <bytes> <cmd...>`)
var subcommands = map[string]func(args []string){}

type caseWriter struct{ w *bufio.Writer }

// add observes the implementation on (op, input) and writes the case line
// id \t op \t input \t observed
func (c *caseWriter) add(id, op, input string) string {
	obs, ok := observers[op]
	if !ok {
		panic("no observer for " + op)
	}
	o := obs(input)
	fmt.Fprintf(c.w, "%s\t%s\t%s\t%s\n", id, op, input, o)
	return o
}

func main() {
	if len(os.Args) > 1 {
		if f, ok := subcommands[os.Args[1]]; ok {
			f(os.Args[2:])
			return
		}
	}
	if len(os.Args) < 4 && !(len(os.Args) == 2 && os.Args[1] == "replay") {
		fmt.Fprintln(os.Stderr, "usage: verifharness <gen> <seed> <n> [args...]")
		os.Exit(2)
	}
	if os.Args[1] == "replay" {
		replay()
		return
	}
	g, ok := gens[os.Args[1]]
	if !ok {
		fmt.Fprintln(os.Stderr, "unknown generator", os.Args[1])
		os.Exit(2)
	}
	seed, _ := strconv.ParseUint(os.Args[2], 10, 64)
	n, _ := strconv.Atoi(os.Args[3])
	w := bufio.NewWriterSize(os.Stdout, 1<<20)
	if err := g(&caseWriter{w}, seed, n, os.Args[4:]); err != nil {
		w.Flush()
		fmt.Fprintln(os.Stderr, "harness error:", err)
		os.Exit(3)
	}
	w.Flush()
}

// splitmix64: the only source of randomness; a case replays from (seed, property, index).
type rng struct{ s uint64 }

func newRng(seed uint64, prop string, idx int) *rng {
	h := seed ^ 0x9e3779b97f4a7c15
	for _, c := range []byte(prop) {
		h = (h ^ uint64(c)) * 0x100000001b3
	}
	r := &rng{s: h + uint64(idx)*0xbf58476d1ce4e5b9}
	r.next()
	return r
}

func (r *rng) next() uint64 {
	r.s += 0x9e3779b97f4a7c15
	z := r.s
	z = (z ^ (z >> 30)) * 0xbf58476d1ce4e5b9
	z = (z ^ (z >> 27)) * 0x94d049bb133111eb
	return z ^ (z >> 31)
}

func (r *rng) intn(n int) int {
	if n <= 0 {
		return 0
	}
	return int(r.next() % uint64(n))
}

func (r *rng) rangeInt(lo, hi int) int { return lo + r.intn(hi-lo+1) }
func (r *rng) chance(pct int) bool     { return r.intn(100) < pct }
func pick[T any](r *rng, xs []T) T     { return xs[r.intn(len(xs))] }

type caseIn struct{ id, op, input string }

// addBatch observes many cases concurrently (observers that run subprocesses) and writes the
// lines in the given order.
func (c *caseWriter) addBatch(items []caseIn) []string {
	res := make([]string, len(items))
	var wg sync.WaitGroup
	sem := make(chan struct{}, 16)
	for i := range items {
		wg.Add(1)
		sem <- struct{}{}
		go func(i int) {
			defer wg.Done()
			defer func() { <-sem }()
			res[i] = observers[items[i].op](items[i].input)
		}(i)
	}
	wg.Wait()
	for i, it := range items {
		fmt.Fprintf(c.w, "%s\t%s\t%s\t%s\n", it.id, it.op, it.input, res[i])
	}
	return res
}

func replay() {
	sc := bufio.NewScanner(os.Stdin)
	sc.Buffer(make([]byte, 1<<20), 1<<28)
	w := bufio.NewWriterSize(os.Stdout, 1<<20)
	defer w.Flush()
	cw := &caseWriter{w}
	var items []caseIn
	for sc.Scan() {
		f := strings.SplitN(sc.Text(), "\t", 4)
		if len(f) < 3 {
			continue
		}
		items = append(items, caseIn{f[0], f[1], f[2]})
	}
	cw.addBatch(items)
}
