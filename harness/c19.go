package main

// C19: concurrent loading and processing.  The generator builds a journal (structured first),
// spreads it over an include tree, picks a command, a flag set, a failure kind and a schedule
// seed.  The observer writes the files into a temp dir, runs the real binary (built with
// -tags verif) with KNUT_VERIF_SCHED / KNUT_VERIF_TRACE and renders exit status, whether stdout
// is empty, the census and the hook trace.  The verdict is computed by kmodel (drv_c19.ml)
// with the extracted trace_ok / trace_complete.
//
// input  = "sched=<seed>;cmd=<balance|print|check>;kind=<ok|assert|noprice|syntax|missing|notopen>;
//           ndir=<generated directives>;ndays=<distinct dates>;args=<a b c>;files=<name|content|name|content..>"
//          (names and contents escaped with esc)
//          include-GRAPH cases (kind ok or cycle) also carry "graph=<f>>g.h,..>" (the include directives of file number f
//          in file order, files numbered as in files=, 0 = root) and "perfile=<n0.n1...>" (directives written in each file):
//          ndir is then the sum over the simple include paths from the root of the directives of the path's last file
//          (a file included from two places is loaded twice), computed here by depth-first search and, independently, in
//          kmodel by running the extracted transition system of Model/PipeFromPathCycle.v on the graph.
// observed (C19.trace) = "exit=<..> out=<empty|nonempty> adds=<n> printed=<n|-> hooks=<0|1> trace=<st:ph:date,...>"
// observed (C19.race)  = "race=<0|1|-> exit=<..>"

import (
	"fmt"
	"os"
	"path/filepath"
	"regexp"
	"sort"
	"strings"
	"time"
)

func init() {
	gens["C19"] = genC19
	observers["C19.trace"] = retryHang(obsC19Trace, "exit=HANG")
	observers["C19.race"] = retryHang(obsC19Race, "exit=HANG")
}

type c19File struct {
	name  string
	lines []string // directives (each possibly multi-line) and include lines
}

type c19Case struct {
	sched int
	cmd   string
	kind  string
	ndir  int
	ndays int
	args  []string
	files []c19File
	// include-graph cases only
	graph   [][]int
	perfile []int
}

func (c c19Case) encode() string {
	var fs []string
	for _, f := range c.files {
		fs = append(fs, vesc(f.name), vesc(strings.Join(f.lines, "\n")+"\n"))
	}
	extra := ""
	if c.graph != nil {
		var gs, ps []string
		for f, incs := range c.graph {
			var ts []string
			for _, g := range incs {
				ts = append(ts, fmt.Sprint(g))
			}
			gs = append(gs, fmt.Sprintf("%d>%s", f, strings.Join(ts, ".")))
		}
		for _, n := range c.perfile {
			ps = append(ps, fmt.Sprint(n))
		}
		extra = fmt.Sprintf("graph=%s;perfile=%s;", strings.Join(gs, ","), strings.Join(ps, "."))
	}
	return fmt.Sprintf("sched=%d;cmd=%s;kind=%s;ndir=%d;ndays=%d;args=%s;%sfiles=%s",
		c.sched, c.cmd, c.kind, c.ndir, c.ndays, vesc(strings.Join(c.args, " ")), extra, strings.Join(fs, "|"))
}

func c19Decode(in string) (kv map[string]string, files [][2]string) {
	kv = map[string]string{}
	for _, f := range strings.Split(in, ";") {
		if i := strings.IndexByte(f, '='); i > 0 {
			kv[f[:i]] = f[i+1:]
		}
	}
	parts := strings.Split(kv["files"], "|")
	for i := 0; i+1 < len(parts); i += 2 {
		files = append(files, [2]string{vunesc(parts[i]), vunesc(parts[i+1])})
	}
	return
}

var c19Assets = []string{"Assets:Bank", "Assets:Cash", "Assets:Broker:Main", "Liabilities:Card"}

// (Expenses:Cash and Income:Card are the type-swapped twins of the valuation accounts Income:Cash / Expenses:Card that
// Valuate creates for Assets:Cash and Liabilities:Card while the report stage remaps accounts: seeded change
// C19d-swaps-under-two-locks raced on exactly that pair of registry paths)
var c19Others = []string{"Expenses:Food", "Expenses:Rent", "Income:Salary", "Equity:Opening", "Expenses:Fees", "Expenses:Cash", "Income:Card"}

// genC19Journal returns the directives (as text) of a valid journal, the number of distinct
// dates and, per date, nothing else; failure kinds mutate it afterwards.
func genC19Journal(r *rng, kind string, accruals bool) (dirs []string, ndays int, injected bool) {
	nd := r.rangeInt(3, 24)
	start := time.Date(2019+r.intn(4), time.Month(1+r.intn(12)), 1+r.intn(27), 0, 0, 0, 0, time.UTC)
	var dates []time.Time
	d := start
	for i := 0; i < nd; i++ {
		d = d.AddDate(0, 0, 1+r.intn(20))
		dates = append(dates, d)
	}
	day := func(t time.Time) string { return t.Format("2006-01-02") }
	accounts := append(append([]string{}, c19Assets...), c19Others...)
	open0 := day(start)
	for _, a := range accounts {
		dirs = append(dirs, fmt.Sprintf("%s open %s", open0, a))
	}
	// prices for USD before anything else happens in USD
	dirs = append(dirs, fmt.Sprintf("%s price USD 0.9%d CHF", open0, r.intn(10)))
	bal := map[string]int{}
	badDay := dates[r.intn(len(dates))]
	for _, dt := range dates {
		if r.chance(30) {
			dirs = append(dirs, fmt.Sprintf("%s price USD %d.%02d CHF", day(dt), r.intn(2), 80+r.intn(19)))
		}
		nt := r.rangeInt(0, 3)
		if dt.Equal(badDay) && nt == 0 {
			nt = 1
		}
		for k := 0; k < nt; k++ {
			com := "CHF"
			if r.chance(25) {
				com = "USD"
			}
			cr, dr := pick(r, accounts), pick(r, accounts)
			for dr == cr {
				dr = pick(r, accounts)
			}
			amt := r.rangeInt(1, 5000)
			if kind == "noprice" && dt.Equal(badDay) && k == 0 {
				com = "XYZ"
				injected = true
			}
			if kind == "notopen" && dt.Equal(badDay) && k == 0 {
				dr = "Assets:NeverOpened"
				injected = true
			}
			bal[cr+" "+com] -= amt
			bal[dr+" "+com] += amt
			dirs = append(dirs, fmt.Sprintf("%s \"t%d %s\"\n%s %s %d %s", day(dt), k, strings.Repeat("x", r.intn(8)), cr, dr, amt, com))
		}
		// assertions only on positions that have been posted to (an assertion of 0 on an untouched
		// position is rejected by the pinned tree: DESIGN.md section 8, F1 - not this property's business)
		var touched []string
		for _, a := range c19Assets {
			if _, ok := bal[a+" CHF"]; ok {
				touched = append(touched, a)
			}
		}
		if len(touched) > 0 && (r.chance(35) || (kind == "assert" && dt.Equal(badDay))) {
			a := pick(r, touched)
			v := bal[a+" CHF"]
			if kind == "assert" && dt.Equal(badDay) {
				v += 1 + r.intn(9)
				injected = true
			}
			dirs = append(dirs, fmt.Sprintf("%s balance %s %d CHF", day(dt), a, v))
		}
	}
	if accruals && r.chance(60) {
		// (race cases only: the census of the traced cases counts one Builder.Add per generated directive)
		// an accrued transaction in USD (the balance assertions are on CHF positions): its period transactions lie on
		// adjacent days, are valued at changing prices and travel through the stages one behind the other (seeded
		// change C19c-accrual-postings-shared let them share their postings: Valuate wrote a day's value while a
		// later stage still read the previous day's; no generated journal had an accrual)
		dt := dates[r.intn(len(dates))]
		iv := pick(r, []string{"daily", "daily", "weekly", "monthly"})
		span := map[string]int{"daily": r.rangeInt(2, 12), "weekly": r.rangeInt(8, 40), "monthly": r.rangeInt(30, 150)}[iv]
		s0 := dt.AddDate(0, 0, r.rangeInt(-3, 5))
		if s0.Before(start) {
			s0 = start
		}
		e0 := s0.AddDate(0, 0, span)
		for k := 0; k <= span && iv == "daily"; k += 1 + r.intn(2) {
			dirs = append(dirs, fmt.Sprintf("%s price USD 0.%d CHF", day(s0.AddDate(0, 0, k)), r.rangeInt(80, 99)))
		}
		dirs = append(dirs, fmt.Sprintf("@accrue %s %s %s Assets:Broker:Main\n%s \"accrued\"\nAssets:Cash Expenses:Rent %d.%02d USD",
			iv, day(s0), day(e0), day(dt), r.rangeInt(1, 3000), r.intn(100)))
	}
	distinct := map[string]bool{}
	for _, d := range dirs {
		k := d[:10]
		if strings.HasPrefix(d, "@accrue") {
			// the directive's date is on the line after the annotation; the accrual adds its period ends as days
			k = d[strings.Index(d, "\n")+1:][:10]
		}
		distinct[k] = true
	}
	return dirs, len(distinct), injected
}

// c19Visits walks the include graph as syntax.parseRec does (one visit per include directive, the chain of ancestors
// carried along, a file that is among its ancestors is a dead end and an error): the number of visits of every file
// that are simple paths from the root, and whether some visit closes a cycle.
func c19Visits(graph [][]int) (count []int, cyclic bool) {
	count = make([]int, len(graph))
	var walk func(f int, chain []int)
	walk = func(f int, chain []int) {
		for _, a := range chain {
			if a == f {
				cyclic = true
				return
			}
		}
		count[f]++
		chain = append(append([]int{}, chain...), f)
		for _, g := range graph[f] {
			walk(g, chain)
		}
	}
	walk(0, nil)
	return
}

// genC19Graph: an include GRAPH that is not a tree (harness/c06imp.go case "graph" has the fixed shapes; seeded change
// C06c-load-once-set, a global set of loaded files, was missed by C19 because every generated layout was a tree):
// a diamond, a file included three times, mutual includes reachable over two routes, a longer cycle entered at two
// points, a cycle below a diamond, and random graphs (every file below the root has one or two parents, sometimes an
// include back to an earlier file).  The opens are in the root; the other files hold transactions and prices only, so
// that a file may be loaded several times.  kind = ok (census: sum over simple paths) or cycle (exit 1, empty stdout).
func genC19Graph(r *rng) c19Case {
	var graph [][]int
	var names []string
	switch shape := r.intn(9); shape {
	case 0: // diamond: root -> a, b; a -> c; b -> c
		names = []string{"root.knut", "a.knut", "b.knut", "sub/c.knut"}
		graph = [][]int{{1, 2}, {3}, {3}, {}}
	case 1: // a file included twice by the same file and once more below
		names = []string{"root.knut", "a.knut", "c.knut"}
		graph = [][]int{{2, 1, 2}, {2}, {}}
	case 2: // three routes to a file that includes another one: d and e are loaded three times each
		names = []string{"root.knut", "a.knut", "b.knut", "sub/c.knut", "sub/d.knut", "e.knut"}
		graph = [][]int{{1, 2, 3}, {4}, {4}, {4}, {5}, {}}
	case 3: // two files that include each other, both reachable from the root
		names = []string{"root.knut", "a.knut", "b.knut"}
		graph = [][]int{{1, 2}, {2}, {1}}
	case 4: // a longer cycle a -> c -> b -> a entered at a and at b
		names = []string{"root.knut", "a.knut", "b.knut", "d/c.knut"}
		graph = [][]int{{1, 2}, {3}, {1}, {2}}
	case 5: // a cycle below a diamond
		names = []string{"root.knut", "a.knut", "b.knut", "c.knut", "d.knut"}
		graph = [][]int{{1, 2}, {3}, {3}, {4}, {3}}
	default: // random: file f > 0 is included by one or two earlier files; sometimes an include back
		nf := r.rangeInt(3, 6)
		graph = make([][]int, nf)
		names = []string{"root.knut"}
		for f := 1; f < nf; f++ {
			dir := ""
			if r.chance(35) {
				dir = fmt.Sprintf("s%d", r.intn(2))
			}
			names = append(names, filepath.Join(dir, fmt.Sprintf("f%d.knut", f)))
			p := r.intn(f)
			graph[p] = append(graph[p], f)
			if r.chance(60) {
				q := r.intn(f)
				graph[q] = append(graph[q], f) // q == p: the same file included twice by one file
			}
		}
		if shape == 8 || r.chance(25) {
			from := r.rangeInt(1, nf-1)
			graph[from] = append(graph[from], r.intn(from+1)) // back to an earlier file, or to itself
		}
	}
	nf := len(graph)
	count, cyclic := c19Visits(graph)
	c := c19Case{sched: 1 + r.intn(1000000), kind: "ok", graph: graph}
	if cyclic {
		c.kind = "cycle"
	}
	// directives
	accounts := append(append([]string{}, c19Assets...), c19Others...)
	start := time.Date(2019+r.intn(4), time.Month(1+r.intn(12)), 1+r.intn(27), 0, 0, 0, 0, time.UTC)
	day := func(k int) string { return start.AddDate(0, 0, k).Format("2006-01-02") }
	dirs := make([][]string, nf)
	for _, a := range accounts {
		dirs[0] = append(dirs[0], fmt.Sprintf("%s open %s\n", day(0), a))
	}
	dirs[0] = append(dirs[0], fmt.Sprintf("%s price USD 0.9%d CHF\n", day(0), r.intn(10)))
	ndates := r.rangeInt(3, 9)
	for f := 0; f < nf; f++ {
		for k := r.rangeInt(1, 4); k > 0; k-- {
			com := "CHF"
			if r.chance(25) {
				com = "USD"
			}
			cr, dr := pick(r, accounts), pick(r, accounts)
			for dr == cr {
				dr = pick(r, accounts)
			}
			dirs[f] = append(dirs[f], fmt.Sprintf("%s \"g%d %s\"\n%s %s %d %s\n", day(1+r.intn(ndates)), f,
				strings.Repeat("y", r.intn(6)), cr, dr, r.rangeInt(1, 5000), com))
		}
		if r.chance(30) {
			dirs[f] = append(dirs[f], fmt.Sprintf("%s price USD %d.%02d CHF\n", day(1+r.intn(ndates)), r.intn(2), 80+r.intn(19)))
		}
	}
	distinct := map[string]bool{}
	c.files = make([]c19File, nf)
	for f := 0; f < nf; f++ {
		c.files[f].name = names[f]
		c.perfile = append(c.perfile, len(dirs[f]))
		c.ndir += count[f] * len(dirs[f])
		c.files[f].lines = append(c.files[f].lines, dirs[f]...)
		for _, d := range dirs[f] {
			if count[f] > 0 {
				distinct[d[:10]] = true
			}
		}
		for _, g := range graph[f] {
			rel, err := filepath.Rel(filepath.Dir(names[f]), names[g])
			if err != nil {
				panic(err)
			}
			if r.chance(25) {
				rel = "./" + rel
			}
			c.files[f].lines = append(c.files[f].lines, fmt.Sprintf("include \"%s\"", rel))
		}
		ls := c.files[f].lines
		for k := len(ls) - 1; k > 0; k-- {
			j := r.intn(k + 1)
			ls[k], ls[j] = ls[j], ls[k]
		}
	}
	c.ndays = len(distinct)
	switch r.intn(10) {
	case 0, 1, 2, 3:
		c.cmd = "print"
	case 4:
		c.cmd = "check"
	default:
		c.cmd = "balance"
		flagsets := [][]string{{}, {"-v", "CHF"}, {"--months"}, {"-v", "CHF", "--months", "--diff"}, {"--csv", "--years"},
			{"-v", "CHF", "--remap", "Expenses"}}
		c.args = append([]string{"--from", "2018-01-01", "--to", "2025-12-31", "--color=false"}, pick(r, flagsets)...)
	}
	return c
}

func genC19(out *caseWriter, seed uint64, n int, args []string) error {
	race := len(args) > 0 && args[0] == "race"
	// failure kinds, by the stage that fails: syntax, missing (parser goroutines), model (model.FromStream: a directive
	// that parses but is rejected on conversion - impossible date, unknown account type - in one to three files), multi
	// (failures of different stages in different files at once), notopen, assert, noprice (processing pipeline).
	// Seeded change C19b-fromstream-inline-hang (the model stage returns at the first error while parsers still wait
	// to deliver their files) was missed before `model` and `multi` existed.
	kinds := []string{"ok", "ok", "ok", "ok", "ok", "ok", "assert", "noprice", "syntax", "missing", "notopen", "model", "model", "multi"}
	for i := 0; i < n; i++ {
		r := newRng(seed, "C19", i)
		if i%7 == 4 {
			in := genC19Graph(r).encode()
			if race {
				out.add(fmt.Sprintf("C19r-%d-%d", seed, i), "C19.race", in)
			} else {
				out.add(fmt.Sprintf("C19-%d-%d", seed, i), "C19.trace", in)
			}
			continue
		}
		kind := kinds[r.intn(len(kinds))]
		dirs, ndays, injected := genC19Journal(r, kind, race)
		if !injected && (kind == "assert" || kind == "noprice" || kind == "notopen") {
			kind = "ok" // the failure could not be placed (e.g. no position to assert on): a valid journal
		}
		c := c19Case{sched: 1 + r.intn(1000000), kind: kind, ndir: len(dirs), ndays: ndays}
		// command and flags
		switch r.intn(10) {
		case 0, 1, 2:
			c.cmd = "print"
		case 3:
			c.cmd = "check"
		default:
			c.cmd = "balance"
			flagsets := [][]string{{}, {"-v", "CHF"}, {"--months"}, {"-v", "CHF", "--months", "--diff"},
				{"--days", "--last", "5"}, {"-v", "CHF", "--weeks", "-m", "1,Expenses"}, {"--csv", "--years"},
				{"-m", "1:1,Assets", "-a"}, {"-v", "CHF", "--remap", "Expenses"}, {"-v", "CHF", "--remap", "Cash", "--days"},
				{"--remap", "Assets", "--months"}}
			c.args = append([]string{"--from", "2018-01-01", "--to", "2025-12-31", "--color=false"}, pick(r, flagsets)...)
		}
		if kind == "noprice" {
			c.cmd = "balance"
			c.args = []string{"--from", "2018-01-01", "--to", "2025-12-31", "--color=false", "-v", "CHF"}
		}
		if race && i%4 == 3 {
			// lazily created accounts: many custody accounts, each with a same-named account of another type, take a
			// USD position one after the other while the price moves daily; the valued report remaps accounts.  The
			// valuation stage then creates valuation accounts (registry writes) on many different days while the report
			// stage resolves remapped accounts (registry reads) for the days before (seeded change
			// C19d-swaps-under-two-locks protected one map with two different locks on those two paths)
			kind = "ok"
			dirs = nil
			nacc := r.rangeInt(8, 30)
			d0 := time.Date(2020, 1, 1, 0, 0, 0, 0, time.UTC)
			for _, a := range []string{"Equity:Equity", "Assets:Bank", "Expenses:Food"} {
				dirs = append(dirs, fmt.Sprintf("%s open %s", d0.Format("2006-01-02"), a))
			}
			for k := 0; k < nacc; k++ {
				dirs = append(dirs, fmt.Sprintf("%s open Assets:Depot:S%02d", d0.Format("2006-01-02"), k),
					fmt.Sprintf("%s open %s:Depot:S%02d", d0.Format("2006-01-02"), pick(r, []string{"Expenses", "Income"}), k))
			}
			dirs = append(dirs, fmt.Sprintf("%s \"opening\"\nEquity:Equity Assets:Bank 100000 CHF", d0.Format("2006-01-02")))
			for k := 0; k < nacc+3; k++ {
				dt := d0.AddDate(0, 0, 1+k).Format("2006-01-02")
				dirs = append(dirs, fmt.Sprintf("%s price USD 0.%d CHF", dt, 80+r.intn(19)))
				if k < nacc {
					dirs = append(dirs, fmt.Sprintf("%s \"buy\"\nEquity:Equity Assets:Depot:S%02d %d USD", dt, k, r.rangeInt(1, 900)))
				}
				dirs = append(dirs, fmt.Sprintf("%s \"lunch\"\nAssets:Bank Expenses:Food %d CHF", dt, r.rangeInt(5, 40)))
			}
			c = c19Case{sched: 1 + r.intn(1000000), kind: kind, ndir: len(dirs), ndays: nacc + 4, cmd: "balance"}
			c.args = []string{"--from", "2018-01-01", "--to", "2025-12-31", "--color=false", "-v", "CHF", "--remap", pick(r, []string{"Expenses", "Depot", "Food"})}
			if r.chance(45) {
				// ... or shortens them with a suffix rule (-m level:suffix,regex) while the valuation stage, some days ahead,
				// derives valuation accounts from the same account objects (seeded change C19g-shorten-slices-delete-in-place
				// shifted the segments of the shared account in place)
				c.args = append(c.args[:len(c.args)-2], "-m", pick(r, []string{"1:1,^Assets", "1:1,Depot", "1:1,."}))
			}
			if r.chance(40) {
				c.args = append(c.args, pick(r, []string{"--days", "--weeks", "--months"}))
			}
		}
		// include tree: file 0 is the root; file i is included by a random earlier file
		nf := r.rangeInt(1, 7)
		wide := 0
		if i%6 == 5 {
			// a wide, nested tree: the root includes `wide` files and each of those includes a file of
			// its own, so that many parser goroutines which still have to spawn another one are
			// active at once (a bound on concurrent parsers deadlocks here; seeded changes
			// C19-errgroup-limit-deadlock / C14-errgroup-limit-hang were missed without this shape)
			wide = r.rangeInt(17, 40)
			nf = 1 + 2*wide
		}
		c.files = make([]c19File, nf)
		dirOf := make([]string, nf)
		c.files[0].name = "root.knut"
		for f := 1; f < nf; f++ {
			parent := r.intn(f)
			if wide > 0 {
				if f <= wide {
					parent = 0
				} else {
					parent = f - wide
				}
			}
			sub := ""
			if r.chance(50) {
				sub = fmt.Sprintf("s%d", f)
			}
			dirOf[f] = filepath.Join(dirOf[parent], sub)
			c.files[f].name = filepath.Join(dirOf[f], fmt.Sprintf("f%d.knut", f))
			c.files[parent].lines = append(c.files[parent].lines,
				fmt.Sprintf("include \"%s\"", filepath.Join(sub, fmt.Sprintf("f%d.knut", f))))
		}
		for _, d := range dirs {
			f := r.intn(nf)
			c.files[f].lines = append(c.files[f].lines, d+"\n")
		}
		for f := range c.files { // shuffle the lines of each file
			ls := c.files[f].lines
			for k := len(ls) - 1; k > 0; k-- {
				j := r.intn(k + 1)
				ls[k], ls[j] = ls[j], ls[k]
			}
		}
		switch kind {
		case "syntax":
			f := r.intn(nf)
			pos := r.intn(len(c.files[f].lines) + 1)
			ls := append([]string{}, c.files[f].lines[:pos]...)
			ls = append(ls, "2020-13-45 open open ???\n")
			c.files[f].lines = append(ls, c.files[f].lines[pos:]...)
		case "missing":
			f := r.intn(nf)
			c.files[f].lines = append(c.files[f].lines, "include \"does/not/exist.knut\"")
		case "model", "multi":
			bad := []string{"2021-02-30 open Assets:Leap\n", "2020-01-01 open Asset:Bank\n", "2020-06-31 price USD 0.9 CHF\n",
				"2020-03-01 \"bad type\"\nAssets:Bank Expense:Rent 10 CHF\n"}
			for q := r.rangeInt(1, 3); q > 0; q-- {
				f := r.intn(nf)
				pos := r.intn(len(c.files[f].lines) + 1)
				ls := append([]string{}, c.files[f].lines[:pos]...)
				ls = append(ls, pick(r, bad))
				c.files[f].lines = append(ls, c.files[f].lines[pos:]...)
			}
			if kind == "multi" {
				f := r.intn(nf)
				if r.chance(50) {
					c.files[f].lines = append(c.files[f].lines, "2020-13-45 open open ???\n")
				} else {
					c.files[f].lines = append(c.files[f].lines, "include \"does/not/exist.knut\"")
				}
			}
		}
		in := c.encode()
		if race {
			out.add(fmt.Sprintf("C19r-%d-%d", seed, i), "C19.race", in)
		} else {
			out.add(fmt.Sprintf("C19-%d-%d", seed, i), "C19.trace", in)
		}
	}
	return nil
}

func c19WriteFiles(files [][2]string) (dir string) {
	dir = workTemp("knutverif-c19-")
	for _, f := range files {
		p := filepath.Join(dir, f[0])
		if err := os.MkdirAll(filepath.Dir(p), 0o755); err != nil {
			panic(err)
		}
		if err := os.WriteFile(p, []byte(f[1]), 0o644); err != nil {
			panic(err)
		}
	}
	return dir
}

var c19Frame = regexp.MustCompile(`(?m)^(?:Write|Read|Previous write|Previous read) at .*\n\s+(\S+)\(`)

var c19DirectiveLine = regexp.MustCompile(`(?m)^\d{4}-\d{2}-\d{2} `)

func c19Run(bin string, in string, withTrace bool) (res vRunResult, tracePath, dir string) {
	kv, files := c19Decode(in)
	dir = c19WriteFiles(files)
	tracePath = filepath.Join(dir, "verif.trace")
	env := []string{"KNUT_VERIF_SCHED=" + kv["sched"]}
	if withTrace {
		env = append(env, "KNUT_VERIF_TRACE="+tracePath)
	}
	argv := []string{bin, kv["cmd"]}
	if a := vunesc(kv["args"]); a != "" {
		argv = append(argv, strings.Fields(a)...)
	}
	argv = append(argv, filepath.Join(dir, "root.knut"))
	res = runCmd(20*time.Second, env, dir, argv...)
	return
}

func obsC19Trace(in string) string {
	kv, _ := c19Decode(in)
	res, tracePath, dir := c19Run(knutBin(), in, true)
	defer os.RemoveAll(dir)
	out := "empty"
	if len(res.stdout) > 0 {
		out = "nonempty"
	}
	printed := "-"
	if kv["cmd"] == "print" {
		printed = fmt.Sprint(len(c19DirectiveLine.FindAll(res.stdout, -1)))
	}
	hooks := "0"
	adds := 0
	var evs []string
	if data, err := os.ReadFile(tracePath); err == nil {
		hooks = "1"
		type ev struct {
			seq   int
			stage int
			ph    string
			item  string
		}
		var es []ev
		for _, l := range strings.Split(string(data), "\n") {
			var e ev
			if n, _ := fmt.Sscanf(l, "%d %d %s %s", &e.seq, &e.stage, &e.ph, &e.item); n == 4 {
				es = append(es, e)
			}
		}
		sort.SliceStable(es, func(a, b int) bool { return es[a].seq < es[b].seq })
		for _, e := range es {
			if e.ph == "add" {
				adds++
				continue
			}
			evs = append(evs, fmt.Sprintf("%d:%s:%s", e.stage, e.ph[:1], e.item))
		}
	}
	return fmt.Sprintf("exit=%s out=%s adds=%d printed=%s hooks=%s trace=%s", res.exit, out, adds, printed, hooks,
		strings.Join(evs, ","))
}

func obsC19Race(in string) string {
	bin := os.Getenv("KNUT_RACE_BIN")
	if bin == "" {
		return "race=- exit=-"
	}
	res, _, dir := c19Run(bin, in, false)
	defer os.RemoveAll(dir)
	race := "0"
	if strings.Contains(string(res.stderr), "DATA RACE") {
		race = "1"
	}
	at := "-"
	if race == "1" { // the top frames of the two conflicting accesses
		var fr []string
		for _, m := range c19Frame.FindAllStringSubmatch(string(res.stderr), 4) {
			fr = append(fr, m[1])
		}
		at = strings.Join(fr, "/")
	}
	return fmt.Sprintf("race=%s exit=%s at=%s", race, res.exit, at)
}
