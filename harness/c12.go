package main

import (
	"context"
	"fmt"
	"sort"
	"strings"
	"time"

	"github.com/sboehler/knut/lib/journal"
	"github.com/sboehler/knut/lib/model/registry"

	"github.com/sboehler/knut/lib/model/commodity"
	"github.com/sboehler/knut/lib/model/price"
	"github.com/shopspring/decimal"
)

func init() {
	gens["C12"] = genC12
	gens["C12dec"] = genC12Dec
	observers["C12.ins"] = obsC12Ins
	observers["C12.norm"] = obsC12Norm
	observers["C12.dec"] = obsC12Dec
	observers["C12.days"] = obsC12Days
	gens["C12days"] = genC12Days
}

// op C12.days: journal.ComputePrices over the days of a journal (the processor that turns the price declarations
// into the normalised prices every later stage uses: Day.Normalized).
// input "<V> | <journal>"   observed "<date>:C=p;C=-;... / <date>:..." one block per day, commodities sorted;
// "-" = no price for that commodity on that day; ERR when the journal cannot be loaded
func obsC12Days(in string) (res string) {
	defer func() {
		if r := recover(); r != nil {
			res = fmt.Sprint("PANIC:", r)
		}
	}()
	cfgS, jS := splitInput(in)
	v := strings.TrimSpace(cfgS)
	j := DecodeJournal(jS)
	set := map[string]bool{v: true}
	for _, d := range j {
		switch d.Kind {
		case 'P':
			set[d.Com], set[d.Target] = true, true
		case 'T':
			for _, b := range d.Bookings {
				set[b.Com] = true
			}
		}
	}
	var names []string
	for n := range set {
		names = append(names, n)
	}
	sort.Strings(names)
	withTempDir(func(dir string) {
		f := writeFile(dir, "journal.knut", j.Text())
		reg := registry.New()
		b, err := journal.FromPath(context.Background(), reg, f)
		if err != nil {
			res = "ERR"
			return
		}
		vc, err := reg.Commodities().Get(v)
		if err != nil {
			res = "ERR"
			return
		}
		var blocks []string
		coll := &journal.Processor{DayEnd: func(d *journal.Day) error {
			var parts []string
			for _, n := range names {
				c, _ := reg.Commodities().Get(n)
				if p, err := d.Normalized.Price(c); err == nil {
					parts = append(parts, n+"="+p.String())
				} else {
					parts = append(parts, n+"=-")
				}
			}
			blocks = append(blocks, fd(d.Date)+":"+strings.Join(parts, ";"))
			return nil
		}}
		if err := b.Build().Process(journal.ComputePrices(vc), coll); err != nil {
			res = "ERR"
			return
		}
		res = strings.Join(blocks, " / ")
	})
	return res
}

// journals of prices, opens and transactions in which the first price declarations come before, on or after the
// first transaction day, with days that carry only prices, only transactions, only opens, or several of them
// (seeded change C12c-prices-inactive-before-first-transaction skipped the normalisation on the days before the
// first transaction and never caught up; the library-level ops cannot see the processor)
func genC12Days(out *caseWriter, seed uint64, n int, args []string) error {
	var items []caseIn
	for i := 0; i < n; i++ {
		r := newRng(seed, "C12days", i)
		coms := allComs[:r.rangeInt(2, 4)]
		if r.chance(15) {
			// names of different lengths whose concatenations coincide (A+BC = AB+C, A+AB = AA+B): seeded change
			// C12g-same-day-quotes-keyed-by-joined-names identified a pair by its two names written one after the other
			// and dropped the "superseded" quote of ANOTHER pair of the day
			coms = [][]string{{"A", "AB", "BC", "C"}, {"A", "AA", "AB", "B"}, {"C", "BC", "AB", "A", "B"}}[r.intn(3)]
		}
		v := pick(r, coms)
		d0 := time.Date(2020, 1, 1, 0, 0, 0, 0, time.UTC).AddDate(0, 0, r.intn(300))
		j := Journal{{Kind: 'O', Date: dateStr(d0), Acc: "Assets:Bank"}, {Kind: 'O', Date: dateStr(d0), Acc: "Equity:Opening"}}
		nd := r.rangeInt(2, 9)
		firstTxn := r.intn(nd)
		for k := 0; k < nd; k++ {
			dt := dateStr(d0.AddDate(0, 0, 1+k*r.rangeInt(1, 3)+k))
			if r.chance(55) {
				for q := r.rangeInt(1, 3); q > 0; q-- {
					c, t := pick(r, coms), pick(r, coms)
					if c != t {
						price := fmt.Sprintf("%d.%02d", r.rangeInt(0, 400), r.rangeInt(1, 99))
						if r.chance(20) {
							// quotes with 9-14 decimal places, some below 1e-8 (seeded change C12d-create-truncates-quote cut
							// the DECLARED price to 8 places; only products and reciprocals are truncated)
							price = fmt.Sprintf("0.%s%d", strings.Repeat("0", r.rangeInt(3, 9)), r.rangeInt(1, 99999))
						}
						j = append(j, Dir{Kind: 'P', Date: dt, Com: c, Price: price, Target: t})
					}
				}
			}
			if k >= firstTxn && r.chance(60) || k == firstTxn {
				j = append(j, Dir{Kind: 'T', Date: dt, Desc: "t", Bookings: []Booking{{"Equity:Opening", "Assets:Bank", randAmount(r, false), pick(r, coms)}}})
			}
			if r.chance(15) {
				j = append(j, Dir{Kind: 'O', Date: dt, Acc: fmt.Sprintf("Assets:Extra%d", k)})
			}
		}
		j = dropConflictingPrices(j)
		r.shuffle(len(j), func(a, b int) { j[a], j[b] = j[b], j[a] })
		items = append(items, caseIn{fmt.Sprintf("C12days-%d-%d", seed, i), "C12.days", v + " | " + j.Enc()})
	}
	out.addBatch(items)
	return nil
}

// number of Normalize calls per case: an iteration order that deviates with probability 1/8 per
// call (two neighbours in one map bucket) goes unnoticed in 25 calls with probability 4%
const c12Calls = 25

type c12Decl struct {
	com, tgt string
	p        decimal.Decimal
}

func parseC12Decls(s string) []c12Decl {
	var res []c12Decl
	if s == "" {
		return res
	}
	for _, d := range strings.Split(s, ",") {
		f := strings.Split(d, " ")
		res = append(res, c12Decl{com: f[0], p: decimal.RequireFromString(f[1]), tgt: f[2]})
	}
	return res
}

// c12Build folds Prices.Insert over the declarations through the exported API; errAt is the
// index of the first rejected declaration (-1: none)
func c12Build(decls []c12Decl, reg *commodity.Registry) (ps price.Prices, errAt int) {
	ps = make(price.Prices)
	for i, d := range decls {
		if err := ps.Insert(reg.MustGet(d.com), d.p, reg.MustGet(d.tgt)); err != nil {
			return ps, i
		}
	}
	return ps, -1
}

func c12Universe(v string, decls []c12Decl) []string {
	set := map[string]bool{}
	if v != "" {
		set[v] = true
	}
	for _, d := range decls {
		set[d.com] = true
		set[d.tgt] = true
	}
	var names []string
	for n := range set {
		names = append(names, n)
	}
	sort.Strings(names)
	return names
}

// input "C P T,C P T,...": the Prices map, sorted "T>C=p;..." or ERR@i
func obsC12Ins(in string) (res string) {
	defer func() {
		if r := recover(); r != nil {
			res = fmt.Sprint("PANIC:", r)
		}
	}()
	decls := parseC12Decls(in)
	reg := commodity.NewCommodities()
	ps, errAt := c12Build(decls, reg)
	if errAt >= 0 {
		return fmt.Sprintf("ERR@%d", errAt)
	}
	var parts []string
	for t, m := range ps {
		for c, p := range m {
			parts = append(parts, t.Name()+">"+c.Name()+"="+p.String())
		}
	}
	sort.Slice(parts, func(i, j int) bool {
		a, b := strings.SplitN(parts[i], "=", 2)[0], strings.SplitN(parts[j], "=", 2)[0]
		at, bt := strings.SplitN(a, ">", 2), strings.SplitN(b, ">", 2)
		if at[0] != bt[0] {
			return at[0] < bt[0]
		}
		return at[1] < bt[1]
	})
	return strings.Join(parts, ";")
}

func c12Render(np price.NormalizedPrices, names []string, reg *commodity.Registry, amount decimal.Decimal) string {
	var parts []string
	mismatch := false
	for _, n := range names {
		c := reg.MustGet(n)
		p, err1 := np.Price(c)
		x, err2 := np.Valuate(c, amount)
		switch {
		case err1 != nil && err2 != nil:
			parts = append(parts, n+"=-")
		case err1 == nil && err2 == nil:
			parts = append(parts, n+"="+p.String()+"/"+x.String())
		default:
			mismatch = true
			parts = append(parts, n+"=?")
		}
	}
	// anything in the map that is not a commodity of the input
	if len(np) > len(names) {
		mismatch = true
	}
	s := strings.Join(parts, ";")
	if mismatch {
		s += "!mismatch"
	}
	return s
}

// input "V|amount|C P T,...": Normalize(V), rendered for every commodity of the input (sorted),
// Price / Valuate(amount) per commodity; Normalize is called c12Calls times, "!nondet" when two calls differ
func obsC12Norm(in string) (res string) {
	defer func() {
		if r := recover(); r != nil {
			res = fmt.Sprint("PANIC:", r)
		}
	}()
	f := strings.SplitN(in, "|", 3)
	v, amount, decls := f[0], decimal.RequireFromString(f[1]), parseC12Decls(f[2])
	reg := commodity.NewCommodities()
	ps, errAt := c12Build(decls, reg)
	if errAt >= 0 {
		return fmt.Sprintf("ERR@%d", errAt)
	}
	names := c12Universe(v, decls)
	first := ""
	nondet := false
	for k := 0; k < c12Calls; k++ {
		s := c12Render(ps.Normalize(reg.MustGet(v)), names, reg, amount)
		if k == 0 {
			first = s
		} else if s != first {
			nondet = true
		}
	}
	if nondet {
		first += "!nondet"
	}
	return first
}

// input "a b": Div (16 places), 1/a truncated to 8, Truncate(8), Mul, price.Multiply, 1/b truncated to 8
func obsC12Dec(in string) string {
	f := strings.Split(in, " ")
	a, b := decimal.RequireFromString(f[0]), decimal.RequireFromString(f[1])
	one := decimal.NewFromInt(1)
	safe := func(g func() string) (s string) {
		defer func() {
			if r := recover(); r != nil {
				s = "PANIC"
			}
		}()
		return g()
	}
	parts := []string{
		safe(func() string { return a.Div(b).String() }),
		safe(func() string { return one.Div(a).Truncate(8).String() }),
		a.Truncate(8).String(),
		a.Mul(b).String(),
		price.Multiply(a, b).String(),
		safe(func() string {
			if b.IsZero() {
				return "0"
			}
			return one.Div(b).Truncate(8).String()
		}),
	}
	return strings.Join(parts, "|")
}

var c12Names = []string{"AAA", "BB", "CHF", "EUR", "GLD", "USD", "X1"}

func c12Digits(r *rng, n int) string {
	var sb strings.Builder
	for i := 0; i < n; i++ {
		sb.WriteByte(byte('0' + r.intn(10)))
	}
	return sb.String()
}

// randC12Price: integers, few and many decimals, tiny and huge values, occasionally negative
func randC12Price(r *rng) string {
	var s string
	switch r.intn(12) {
	case 0, 1, 2:
		s = fmt.Sprint(r.rangeInt(1, 200))
	case 3, 4:
		s = fmt.Sprintf("%d.%s", r.rangeInt(0, 99), c12Digits(r, r.rangeInt(1, 2)))
	case 5, 6:
		s = fmt.Sprintf("%d.%s", r.rangeInt(0, 9), c12Digits(r, r.rangeInt(3, 8)))
	case 7:
		s = fmt.Sprintf("%d.%s", r.rangeInt(0, 3), c12Digits(r, r.rangeInt(9, 14)))
	case 8:
		s = "0." + strings.Repeat("0", r.rangeInt(3, 9)) + fmt.Sprint(r.rangeInt(1, 99))
	case 9:
		s = fmt.Sprintf("%d%s", r.rangeInt(1, 9), c12Digits(r, r.rangeInt(4, 12)))
	case 10:
		s = pick(r, []string{"1", "3", "7", "0.3", "0.7", "1.5", "2.50", "0.125", "6", "9", "11", "1.00000001"})
	default:
		s = fmt.Sprintf("%d.%s", r.rangeInt(1, 1500), c12Digits(r, r.rangeInt(0, 4)))
		s = strings.TrimSuffix(s, ".")
	}
	if z, err := decimal.NewFromString(s); err != nil || z.IsZero() {
		s = "1"
	}
	if r.chance(4) {
		s = "-" + s
	}
	return s
}

func c12Zero(r *rng) string { return pick(r, []string{"0", "0.0", "0.000", "-0", "00"}) }

// randC12History: a random price graph over at most 7 commodities as a list of declarations:
// one or two components each built from a random spanning tree plus extra edges (alternative
// paths, cycles), redeclarations of existing pairs in either direction, self declarations, the
// whole list shuffled; rarely a zero price
func randC12History(r *rng) (decls []string, used []string) {
	k := r.rangeInt(1, 7)
	perm := append([]string(nil), c12Names...)
	for i := len(perm) - 1; i > 0; i-- {
		j := r.intn(i + 1)
		perm[i], perm[j] = perm[j], perm[i]
	}
	used = perm[:k]
	var comps [][]string
	if k >= 3 && r.chance(35) {
		cut := r.rangeInt(1, k-1)
		comps = [][]string{used[:cut], used[cut:]}
		if k >= 5 && r.chance(30) {
			cut2 := r.rangeInt(cut+1, k-1)
			comps = [][]string{used[:cut], used[cut:cut2], used[cut2:]}
		}
	} else {
		comps = [][]string{used}
	}
	type pair struct{ a, b string }
	var pairs []pair
	add := func(a, b string) {
		if r.chance(50) {
			a, b = b, a
		}
		pairs = append(pairs, pair{a, b})
		decls = append(decls, a+" "+randC12Price(r)+" "+b)
	}
	for _, comp := range comps {
		shape := r.intn(3) // 0 random tree, 1 chain, 2 star
		for i := 1; i < len(comp); i++ {
			switch shape {
			case 1:
				add(comp[i-1], comp[i])
			case 2:
				add(comp[0], comp[i])
			default:
				add(comp[r.intn(i)], comp[i])
			}
		}
		// alternative paths and cycles
		if len(comp) >= 3 {
			extra := 0
			switch r.intn(4) {
			case 0:
			case 1, 2:
				extra = 1
			default:
				extra = r.rangeInt(2, len(comp))
			}
			for e := 0; e < extra; e++ {
				i, j := r.intn(len(comp)), r.intn(len(comp))
				if i != j {
					add(comp[i], comp[j])
				}
			}
		}
	}
	// redeclarations, in either direction
	if len(pairs) > 0 {
		nre := 0
		switch r.intn(4) {
		case 0, 1:
		case 2:
			nre = 1
		default:
			nre = r.rangeInt(2, 5)
		}
		for e := 0; e < nre; e++ {
			p := pick(r, pairs)
			add(p.a, p.b)
		}
	}
	if r.chance(6) {
		c := pick(r, used)
		decls = append(decls, c+" "+randC12Price(r)+" "+c)
	}
	// declaration order
	for i := len(decls) - 1; i > 0; i-- {
		j := r.intn(i + 1)
		decls[i], decls[j] = decls[j], decls[i]
	}
	if r.chance(5) && len(used) >= 2 {
		z := used[0] + " " + c12Zero(r) + " " + used[1]
		at := r.intn(len(decls) + 1)
		decls = append(decls[:at], append([]string{z}, decls[at:]...)...)
	}
	return decls, used
}

func randC12Amount(r *rng) string {
	switch r.intn(5) {
	case 0:
		return fmt.Sprint(r.rangeInt(-500, 500))
	case 1:
		return "1"
	default:
		s := fmt.Sprintf("%d.%s", r.rangeInt(0, 100000), c12Digits(r, r.rangeInt(1, 6)))
		if r.chance(30) {
			s = "-" + s
		}
		return s
	}
}

// genC12: n random histories; for each the Prices map (C12.ins) and Normalize for one or two
// valuation commodities (C12.norm)
func genC12(out *caseWriter, seed uint64, n int, _ []string) error {
	for i := 0; i < n; i++ {
		r := newRng(seed, "C12", i)
		decls, used := randC12History(r)
		h := strings.Join(decls, ",")
		id := fmt.Sprintf("C12-%d-%d", seed, i)
		out.add(id+".i", "C12.ins", h)
		nv := 1
		if len(used) > 1 && r.chance(50) {
			nv = 2
		}
		for k := 0; k < nv; k++ {
			v := pick(r, used)
			if r.chance(4) {
				v = "ZZZ" // a valuation commodity without any price
			}
			out.add(fmt.Sprintf("%s.n%d", id, k), "C12.norm", v+"|"+randC12Amount(r)+"|"+h)
		}
	}
	return nil
}

func randC12Dec(r *rng) string {
	if r.chance(3) {
		return c12Zero(r)
	}
	switch r.intn(4) {
	case 0:
		return randC12Price(r)
	case 1:
		return randC12Amount(r)
	case 2: // many digits on both sides
		s := fmt.Sprintf("%d%s.%s", r.rangeInt(1, 9), c12Digits(r, r.rangeInt(0, 20)), c12Digits(r, r.rangeInt(1, 24)))
		if r.chance(40) {
			s = "-" + s
		}
		return s
	default: // halves and near-ties for rounding
		return pick(r, []string{"2", "3", "6", "7", "8", "16", "32", "0.5", "0.25", "0.125", "-3", "-6", "-7", "0.00000002", "0.00000003",
			"20000000000000000", "30000000000000000", "0.3333333333333333", "0.6666666666666666", "1.00000000000000005", "-0.5"})
	}
}

// genC12Dec: decimal primitives on random pairs
func genC12Dec(out *caseWriter, seed uint64, n int, _ []string) error {
	for i := 0; i < n; i++ {
		r := newRng(seed, "C12dec", i)
		out.add(fmt.Sprintf("C12d-%d-%d", seed, i), "C12.dec", randC12Dec(r)+" "+randC12Dec(r))
	}
	return nil
}
