package main

import "fmt"

func init() {
	observers["C02.bal"] = obsBalance
	gens["C02"] = genC02
}

// genC02: accepted journals x unvalued flag combinations incl. --account/--commodity filters,
// -m level[:suffix],regex (level 0..3, suffix 0..2), --remap, --close, --diff, --last.
// suffixMax limits the suffix (args[0], default 2): suffix >= 1 exercises account.Shorten's
// slice handling.
func genC02(out *caseWriter, seed uint64, n int, args []string) error {
	suffixMax := 2
	if len(args) > 0 {
		fmt.Sscanf(args[0], "%d", &suffixMax)
	}
	var items []caseIn
	for i := 0; i < n; i++ {
		r := newRng(seed, "C02", i)
		o := defaultOpts(r)
		o.prices = r.chance(30)
		j := genJournal(r, o)
		accs := journalAccounts(j)
		for k := 0; k < 2; k++ {
			cfg := genBalCfg(r, j, o, false, false)
			if r.chance(55) {
				nm := 1 + r.intn(2)
				for x := 0; x < nm; x++ {
					lv := r.rangeInt(0, 3)
					m := fmt.Sprintf("%d", lv)
					if suffixMax > 0 && r.chance(40) {
						m += fmt.Sprintf(":%d", r.rangeInt(0, suffixMax))
					}
					if r.chance(85) {
						m += "," + rxFor(r, accs)
					}
					cfg.Map = append(cfg.Map, m)
				}
			}
			if r.chance(25) {
				cfg.Remap = []string{rxFor(r, accs)}
			}
			if r.chance(25) {
				cfg.Acc = []string{rxFor(r, accs)}
			}
			if r.chance(20) {
				cfg.Com = []string{pick(r, o.commodities)}
			}
			items = append(items, caseIn{fmt.Sprintf("C02-%d-%d-%d", seed, i, k), "C02.bal", cfg.Enc() + " | " + j.Enc()})
		}
	}
	out.addBatch(items)
	return nil
}
